#!/bin/bash
# C17 driver: builds the shuttle flavours of the real sources (shadow manifest) and runs them.
#   run.sh quick|thorough      run.sh replay <file>
set -u
HERE="$(cd "$(dirname "${BASH_SOURCE[0]}")" && pwd)"
export VERIF_DIR="${VERIF_DIR:-$(dirname "$HERE")}"
export CARGO_NET_OFFLINE=true
MODE="${1:-quick}"
BASEFLAGS="--cfg raptorq_verif --cfg raptorq_verif_shuttle"
build() { # $1 = small|smallchk|cap64
  local flags="$BASEFLAGS"; [ "$1" = small ] && flags="$flags --cfg raptorq_verif_smallcache"
  [ "$1" = smallchk ] && flags="$flags --cfg raptorq_verif_smallcache -C debug-assertions=on -C overflow-checks=on"
  mkdir -p "$HERE/target"
  ( cd "$HERE" && RUSTFLAGS="$flags" cargo build --quiet --release --target-dir "$HERE/target/$1" ) >"$HERE/target/build-$1.log" 2>&1 || {
    echo "HARNESS-ERROR: build of c17 ($1) failed; see $HERE/target/build-$1.log" >&2; tail -n 30 "$HERE/target/build-$1.log" >&2; exit 2; }
}
case "$MODE" in
  replay)
    FILE="$2"
    FL=$(python3 -c "import json,sys; print(json.load(open(sys.argv[1]))['scenario'].get('flavour','smallcache'))" "$FILE") || exit 2
    if [ "$FL" = cap64 ]; then build cap64; exec "$HERE/target/cap64/release/c17" replay "$FILE"
    elif [ "$FL" = smallcache-checked ]; then build smallchk; exec "$HERE/target/smallchk/release/c17" replay "$FILE"
    else build small; exec "$HERE/target/small/release/c17" replay "$FILE"; fi ;;
  quick|thorough)
    T0=$(date +%s.%N)
    rm -f "$HERE/target/evidence-smallcache.json" "$HERE/target/evidence-cap64.json" "$HERE/target/evidence-smallcache-checked.json"
    build small; build cap64; build smallchk
    RC=0
    "$HERE/target/small/release/c17" "$MODE"; R1=$?
    # a violation in the capacity-3 flavour is reported at once; the shipped-capacity flavour
    # (slower per execution) and the debug-assertion flavour only run when the first one is clean
    if [ "$R1" -eq 0 ]; then "$HERE/target/cap64/release/c17" "$MODE"; R2=$?; else R2=0; fi
    if [ "$R1" -eq 0 ] && [ "$R2" -eq 0 ]; then "$HERE/target/smallchk/release/c17" "$MODE"; R4=$?; else R4=0; fi
    LIMIT=0
    for r in $R1 $R2 $R4; do [ "$r" -eq 2 ] && exit 2; [ "$r" -eq 3 ] && LIMIT=1; [ "$r" -eq 1 ] && RC=1; done
    # sequential request histories against the real (non-shuttle) cache: rqsim, release/std flavour
    rm -f "$HERE/target/evidence-sequential.json"
    if [ "$RC" -eq 0 ]; then
      ( cd "$VERIF_DIR/sim" && cargo build --quiet --release --target-dir "$VERIF_DIR/sim/target/std" ) >"$HERE/target/build-rqsim.log" 2>&1 || {
        echo "HARNESS-ERROR: build of rqsim failed; see $HERE/target/build-rqsim.log" >&2; tail -n 30 "$HERE/target/build-rqsim.log" >&2; exit 2; }
      "$VERIF_DIR/sim/target/std/release/rqsim" C17SEQ "$MODE"; R3=$?
      [ "$R3" -eq 2 ] && exit 2; [ "$R3" -ne 0 ] && RC=1
    fi
    if [ "$LIMIT" -eq 1 ]; then
      # the interleaving part could not be simulated: a violation found by the sequential part is
      # still reported, otherwise this is a harness error (no claim either way)
      [ "$RC" -eq 1 ] && exit 1
      exit 2
    fi
    python3 "$HERE/merge_evidence.py" "$VERIF_DIR" "$MODE" "$T0" || exit 2
    exit $RC ;;
  *) echo "usage: run.sh quick|thorough|replay <file>" >&2; exit 2 ;;
esac
