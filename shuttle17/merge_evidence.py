#!/usr/bin/env python3
"""Merge the per-flavour evidence fragments written by the c17 binaries into evidence/C17.json."""
import json, sys, time, os
verif, tier, t0 = sys.argv[1], sys.argv[2], float(sys.argv[3])
frags = []
for fl in ("smallcache", "cap64", "smallcache-checked"):
    p = os.path.join(verif, "shuttle17", "target", f"evidence-{fl}.json")
    if not os.path.exists(p):
        if fl != "smallcache" and frags and any(f["violations"] for f in frags):
            continue  # skipped because an earlier flavour already reported a violation
        print(f"HARNESS-ERROR: missing evidence fragment {p}", file=sys.stderr); sys.exit(2)
    frags.append(json.load(open(p)))
seq = None
ps = os.path.join(verif, "shuttle17", "target", "evidence-sequential.json")
if os.path.exists(ps):
    seq = json.load(open(ps))
ex = sum(f["executions"] for f in frags)
distinct = sum(f["distinct_traces"] for f in frags)
wall = time.time() - t0
probes = {}
for f in frags:
    for k, v in f["probes"].items():
        probes[k] = probes.get(k, 0) + v
doc = {
    "property_id": "C17", "tier": tier, "seed": frags[0]["seed"], "level": "exploration",
    "coverage": {
        "evaluations": ex,
        "distinct_nontrivial": distinct,
        "rule": "(the count below is shuttle executions; the sequential histories against the real non-shuttle cache are reported separately under sequential_histories_against_the_real_cache) one evaluation = one shuttle execution (one complete interleaving chosen by the seeded random or PCT scheduler) of an explicit multi-thread request scenario against the real plan cache; distinct_nontrivial = number of distinct execution traces, a trace being the sequence of (thread, request start/end, block size, cache keys in insertion order) events; an execution is non-trivial by construction (>= 2 threads, each >= 1 request, pool of sizes larger than the capacity)",
        "samples": [{"flavour": f["flavour"], "scenario": f["sample_scenario"]} for f in frags],
        "flavours": [{k: f[k] for k in ("flavour", "capacity", "scenarios", "executions", "schedules_per_scenario", "distinct_traces", "trace_events", "probes", "wall_s", "violations")} for f in frags],
        "probes": probes,
        "sequential_histories_against_the_real_cache": seq,
        "schedulers": ["shuttle RandomScheduler (seeded)", "shuttle PctScheduler (seeded, depth 2-4)"],
        "fault_kinds": {"client_crash_inside_plan_generation": probes.get("client_crash_inside_plan_generation", 0), "client_stops_early": "in ~1/8 of threads", "thundering_herd": "shape 'herd'", "eviction_pressure": "pool of sizes > capacity in every scenario", "clock_jump_idle_period_sequential": (seq.get("clock_jumps_injected") if seq else 0), "client_crash_sequential_real_mutex": (seq.get("client_crashes_injected") if seq else 0), "client_crash_fault_in_shuttle_flavours": [f.get("client_crash_fault", "enabled") for f in frags]},
        "simulated_time": "shuttle flavours: no clock (scheduling points = every Mutex acquire/release, thread spawn/join, hook H7); sequential histories: idle periods injected as jumps of an owned clock, %s simulated idle seconds in this run" % (seq.get("simulated_idle_seconds") if seq else 0),
        "runs_per_hour": int(ex / max(wall, 1e-9) * 3600),
        "real_components": ["get_or_generate_source_block_encoding_plan", "SourceBlockEncoder::new", "SourceBlockEncodingPlan::generate", "plan replay", "the cache's lookup/insert/eviction code"],
        "stub_components": ["thread scheduler (shuttle)", "Mutex/Arc/lazy static (shuttle's, via hook H1; the OnceLock initialisation itself is replaced)", "request workload (seeded generator)", "uncached single-thread reference encoders (hook H3)"],
    },
    "assumptions": [
        "shuttle samples interleavings, it does not enumerate them",
        "only synchronisation that goes through the imported Mutex/Arc names is controlled; a change that adds a different primitive by full path would run unscheduled",
    ],
    "wall_s": wall,
    "violations": sum(f["violations"] for f in frags) + (seq["violations"] if seq else 0),
}
os.makedirs(os.path.join(verif, "evidence"), exist_ok=True)
json.dump(doc, open(os.path.join(verif, "evidence", "C17.json"), "w"), indent=1)
