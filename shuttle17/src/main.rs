//! C17 — the shared encoding-plan cache under shuttle's controlled scheduler.
//!
//! The real `SourceBlockEncoder::new` / `get_or_generate_source_block_encoding_plan` run on 2-4
//! shuttle threads; the cache's Mutex/Arc/lazy static are shuttle's (hook H1), so shuttle owns
//! every lock acquire/release, spawn and join. Workload (threads, requests, block sizes) is an
//! explicit scenario drawn from the run's PRNG outside shuttle; shuttle's seeded random and PCT
//! schedulers choose the interleaving; a failure is (scenario, schedule string) and replays
//! exactly with `shuttle::replay`.
//!
//! Process structure: `driver` spawns `worker` processes (a panic while unwinding inside shuttle
//! can abort the process; a sub-process confines that) and folds their results in index order.

use raptorq::{
    verif_plan_cache, Encoder, EncodingPacket, ObjectTransmissionInformation, SourceBlockEncoder,
    SourceBlockEncodingPlan,
};
use serde::{Deserialize, Serialize};
use serde_json::{json, Value};
use shuttle::scheduler::{PctScheduler, RandomScheduler};
use shuttle::{thread, Config, FailurePersistence, Runner};
use std::collections::{BTreeMap, HashSet};
use std::path::{Path, PathBuf};
use std::process::Command;
use std::sync::{Arc as StdArc, Mutex as StdMutex};
use std::time::Instant;

const DEFAULT_SEED: u64 = 20260923;
const T: u16 = 4;

// ---------------------------------------------------------------------------------------------
// PRNG (same construction as rqsim's)

fn splitmix64(x: &mut u64) -> u64 {
    *x = x.wrapping_add(0x9E37_79B9_7F4A_7C15);
    let mut z = *x;
    z = (z ^ (z >> 30)).wrapping_mul(0xBF58_476D_1CE4_E5B9);
    z = (z ^ (z >> 27)).wrapping_mul(0x94D0_49BB_1331_11EB);
    z ^ (z >> 31)
}
struct Rng(u64);
impl Rng {
    fn next(&mut self) -> u64 {
        splitmix64(&mut self.0)
    }
    fn below(&mut self, n: usize) -> usize {
        ((self.next() as u128 * n as u128) >> 64) as usize
    }
    fn chance(&mut self, a: usize, b: usize) -> bool {
        self.below(b) < a
    }
}
fn run_seed(seed: u64, idx: u64) -> u64 {
    let mut x = seed ^ 0x17_17_17_17;
    let a = splitmix64(&mut x);
    let mut y = a ^ idx.wrapping_mul(0x9E37_79B9_7F4A_7C15);
    splitmix64(&mut y)
}

// ---------------------------------------------------------------------------------------------
// scenario

#[derive(Clone, Debug, Serialize, Deserialize, PartialEq)]
#[serde(tag = "req", rename_all = "snake_case")]
enum Req {
    /// `SourceBlockEncoder::new` for a block of k symbols (the cache's only consumer)
    New { k: u16, data_seed: u8 },
    /// ask the cache for the plan directly and compare it with a freshly generated one
    Plan { k: u16 },
    /// fault: a client whose request dies inside the library (a block of 56404 symbols, one more
    /// than the code supports, makes plan generation panic); the thread catches the panic and goes
    /// on. The other threads, and this thread's later requests, must be unaffected.
    Crash,
    /// `Encoder::new` for an object of two blocks, ks + 1 and ks symbols: the object encoder consults
    /// the cache once per block size, possibly while other threads insert or evict those sizes
    Object { ks: u16, data_seed: u8 },
}
impl Req {
    fn k(&self) -> u16 {
        match self {
            Req::New { k, .. } | Req::Plan { k } => *k,
            Req::Object { ks, .. } => *ks,
            Req::Crash => 0,
        }
    }
}

fn object_for(ks: u16, data_seed: u8) -> (ObjectTransmissionInformation, Vec<u8>) {
    let kt = 2 * ks as u64 + 1;
    let oti = ObjectTransmissionInformation::new(kt * T as u64, T, 2, 1, 1);
    let mut x = 0x0B1E_C700u64 ^ ((ks as u64) << 8 | data_seed as u64);
    let data = (0..kt as usize * T as usize).map(|_| (splitmix64(&mut x) & 0xFF) as u8).collect();
    (oti, data)
}

/// number of client crashes currently being provoked (the panic hook does not record those)
static EXPECTED_PANICS: std::sync::atomic::AtomicUsize = std::sync::atomic::AtomicUsize::new(0);
static CRASHES_FIRED: std::sync::atomic::AtomicU64 = std::sync::atomic::AtomicU64::new(0);

#[derive(Clone, Debug, Serialize, Deserialize, PartialEq)]
struct Scenario {
    threads: Vec<Vec<Req>>,
    shape: String,
}

fn generate(seed: u64, idx: u64, capacity: usize) -> Scenario {
    let mut r = Rng(run_seed(seed, idx));
    let big = capacity > 8;
    let nthreads = 2 + r.below(3);
    // pool of distinct block sizes, larger than the capacity so that eviction runs
    let pool_n = capacity + 1 + r.below(3);
    let kmax = if big { 100 } else { 40 };
    let mut pool: Vec<u16> = vec![];
    while pool.len() < pool_n {
        let k = 1 + r.below(kmax) as u16;
        if !pool.contains(&k) {
            pool.push(k);
        }
    }
    let shape = match r.below(5) {
        0 => "herd",     // every thread starts with the same missing size
        1 => "evict",    // threads walk through more distinct sizes than the capacity
        2 => "revisit",  // sizes are requested, pushed out and requested again
        _ => "mixed",
    };
    let mut threads = vec![];
    for t in 0..nthreads {
        let nreq = if big { pool_n / nthreads + 2 + r.below(4) } else { 2 + r.below(5) };
        let mut reqs = vec![];
        for i in 0..nreq {
            let k = match shape {
                // with the shipped capacity every scenario first walks past the capacity
                _ if big && i <= pool_n / nthreads => pool[(t + i * nthreads) % pool.len()],
                "herd" if i == 0 => pool[0],
                "evict" => pool[(t + i * nthreads) % pool.len()],
                "revisit" => {
                    if i % 3 == 2 {
                        pool[0]
                    } else {
                        pool[r.below(pool.len())]
                    }
                }
                _ => pool[r.below(pool.len())],
            };
            if !big && r.chance(1, 25) && std::env::var("VERIF_C17_NO_CRASH").is_err() {
                reqs.push(Req::Crash);
            }
            if r.chance(1, 7) && k > 1 && std::env::var("VERIF_C17_NO_OBJECT").is_err() {
                // block sizes k and k - 1: the longer block has a size the other threads ask for as well
                // (an additional request: the walk through the pool stays complete)
                reqs.push(Req::Object { ks: k - 1, data_seed: r.below(4) as u8 });
            }
            if r.chance(1, 4) {
                reqs.push(Req::Plan { k });
            } else {
                reqs.push(Req::New { k, data_seed: r.below(256) as u8 });
            }
        }
        // client "crash": a thread that stops early simply has a shorter list
        if r.chance(1, 8) && reqs.len() > 1 {
            let keep = 1 + r.below(reqs.len() - 1);
            reqs.truncate(keep);
        }
        threads.push(reqs);
    }
    Scenario { threads, shape: shape.to_string() }
}

fn data_for(k: u16, data_seed: u8) -> Vec<u8> {
    let mut x = (k as u64) << 8 | data_seed as u64;
    (0..k as usize * T as usize)
        .map(|_| (splitmix64(&mut x) & 0xFF) as u8)
        .collect()
}

/// What a caller can see of an encoder.
#[derive(PartialEq, Debug, Clone)]
struct Observed {
    source: Vec<EncodingPacket>,
    repair: Vec<EncodingPacket>,
    intermediate: Vec<Vec<u8>>,
}
fn observe(e: &SourceBlockEncoder) -> Observed {
    let mut repair = e.repair_packets(0, 3);
    repair.extend(e.repair_packets(1_000_003, 2));
    repair.extend(e.repair_packets((1 << 24) - 200, 1));
    Observed {
        source: e.source_packets(),
        repair,
        intermediate: e.verif_intermediate_symbols(),
    }
}

/// Reference answers, computed by one thread without any cache and outside shuttle (hook H3).
struct Reference {
    encoders: BTreeMap<(u16, u8), Observed>,
    objects: BTreeMap<(u16, u8), Vec<Observed>>,
}
fn build_reference(s: &Scenario) -> Reference {
    let cfg = ObjectTransmissionInformation::new(0, T, 0, 1, 1);
    let mut encoders = BTreeMap::new();
    let mut objects = BTreeMap::new();
    for req in s.threads.iter().flatten() {
        if let Req::Object { ks, data_seed } = req {
            objects.entry((*ks, *data_seed)).or_insert_with(|| {
                let (oti, data) = object_for(*ks, *data_seed);
                let split = (*ks as usize + 1) * T as usize;
                vec![
                    observe(&SourceBlockEncoder::verif_new_unplanned(0, &oti, &data[..split], 250)),
                    observe(&SourceBlockEncoder::verif_new_unplanned(1, &oti, &data[split..], 250)),
                ]
            });
            continue;
        }
        let key = match req {
            Req::New { k, data_seed } => (*k, *data_seed),
            // a plan handed out by the cache is judged by what an encoder built from it produces
            // (plans themselves need not be unique: any valid elimination order is a valid plan)
            Req::Plan { k } => (*k, 0u8),
            Req::Crash | Req::Object { .. } => continue,
        };
        encoders.entry(key).or_insert_with(|| {
            let e = SourceBlockEncoder::verif_new_unplanned(7, &cfg, &data_for(key.0, key.1), 250);
            observe(&e)
        });
    }
    Reference { encoders, objects }
}

/// Trace of one execution: (thread, event, k, cache keys in insertion order). Plain std mutex: adds
/// no scheduling point.
type Trace = StdArc<StdMutex<Vec<(usize, u8, u16, Vec<u16>)>>>;

fn check_snapshot(who: &str) -> Vec<u16> {
    let (keys, order, counts) = verif_plan_cache::snapshot();
    assert!(
        keys.len() <= verif_plan_cache::CAPACITY,
        "ORACLE[capacity] cache holds {} plans > capacity {} ({who}): keys={keys:?} order={order:?}",
        keys.len(),
        verif_plan_cache::CAPACITY
    );
    let mut o = order.clone();
    o.sort_unstable();
    let mut od = o.clone();
    od.dedup();
    assert_eq!(o.len(), od.len(), "ORACLE[order-dup] insertion order holds a key twice ({who}): {order:?}");
    assert_eq!(od, keys, "ORACLE[bijection] insertion order and key set differ ({who}): keys={keys:?} order={order:?}");
    assert_eq!(keys, counts, "ORACLE[key-count] a plan is stored under a symbol count it was not generated for ({who}): keys={keys:?} counts={counts:?}");
    order
}

fn execute(s: &Scenario, reference: &StdArc<Reference>, trace: &Trace) {
    let cfg = ObjectTransmissionInformation::new(0, T, 0, 1, 1);
    let mut hs = vec![];
    for (t, reqs) in s.threads.iter().cloned().enumerate() {
        let reference = reference.clone();
        let trace = trace.clone();
        hs.push(thread::spawn(move || {
            for req in reqs {
                if let Req::Crash = req {
                    let cfg1 = ObjectTransmissionInformation::new(0, 1, 0, 1, 1);
                    let data = vec![0u8; 56404];
                    EXPECTED_PANICS.fetch_add(1, std::sync::atomic::Ordering::SeqCst);
                    let r = std::panic::catch_unwind(std::panic::AssertUnwindSafe(|| {
                        let _ = SourceBlockEncoder::new(7, &cfg1, &data);
                    }));
                    EXPECTED_PANICS.fetch_sub(1, std::sync::atomic::Ordering::SeqCst);
                    if r.is_err() {
                        CRASHES_FIRED.fetch_add(1, std::sync::atomic::Ordering::SeqCst);
                    }
                    check_snapshot("after a crashed request");
                    continue;
                }
                let before = check_snapshot("before request");
                trace.lock().unwrap().push((t, 0, req.k(), before));
                match req {
                    Req::New { k, data_seed } => {
                        let e = SourceBlockEncoder::new(7, &cfg, &data_for(k, data_seed));
                        let got = observe(&e);
                        let want = &reference.encoders[&(k, data_seed)];
                        assert!(
                            got.source == want.source,
                            "ORACLE[transparency] source packets of the encoder for K={k} differ from the uncached single-thread encoder"
                        );
                        assert!(
                            got.repair == want.repair,
                            "ORACLE[transparency] repair packets of the encoder for K={k} differ from the uncached single-thread encoder"
                        );
                        assert!(
                            got.intermediate == want.intermediate,
                            "ORACLE[transparency] intermediate symbols of the encoder for K={k} differ from the uncached single-thread encoder"
                        );
                    }
                    Req::Crash => unreachable!(),
                    Req::Object { ks, data_seed } => {
                        let (oti, data) = object_for(ks, data_seed);
                        let enc = Encoder::new(&data, oti);
                        let got: Vec<Observed> = enc.get_block_encoders().iter().map(observe).collect();
                        assert!(
                            got == reference.objects[&(ks, data_seed)],
                            "ORACLE[transparency] the block encoders of an object with blocks of {} and {ks} symbols differ from the uncached single-thread encoders",
                            ks + 1
                        );
                    }
                    Req::Plan { k } => {
                        let plan: SourceBlockEncodingPlan = verif_plan_cache::get_or_generate(k);
                        // with_encoding_plan itself rejects a plan generated for another symbol count
                        let e = SourceBlockEncoder::with_encoding_plan(7, &cfg, &data_for(k, 0), &plan);
                        assert!(
                            observe(&e) == reference.encoders[&(k, 0)],
                            "ORACLE[plan-use] an encoder built from the plan the cache hands out for K={k} differs from the uncached single-thread encoder"
                        );
                    }
                }
                let after = check_snapshot("after request");
                trace.lock().unwrap().push((t, 1, req.k(), after));
            }
        }));
    }
    for h in hs {
        h.join().unwrap();
    }
    check_snapshot("after all threads joined");
}

// ---------------------------------------------------------------------------------------------
// probes computed from a trace

#[derive(Default, Clone, Serialize, Deserialize)]
struct Stats {
    executions: u64,
    scenarios: u64,
    probes: BTreeMap<String, u64>,
    distinct_traces: Vec<u64>,
    steps: u64,
}
fn bump(m: &mut BTreeMap<String, u64>, k: &str) {
    *m.entry(k.to_string()).or_insert(0) += 1;
}
fn fnv(h: &mut u64, v: u64) {
    for b in v.to_le_bytes() {
        *h = (*h ^ b as u64).wrapping_mul(0x100000001b3);
    }
}

fn analyse(tr: &[(usize, u8, u16, Vec<u16>)], capacity: usize, probes: &mut BTreeMap<String, u64>) -> u64 {
    let mut h = 0xcbf29ce484222325u64;
    let mut in_flight: BTreeMap<usize, (u16, bool)> = BTreeMap::new(); // thread -> (k, missing at start)
    let mut ever_present: HashSet<u16> = HashSet::new();
    let mut prev_order: Vec<u16> = vec![];
    let (mut same_size, mut evicted, mut reinserted, mut race_evict) = (false, false, false, false);
    for (t, ev, k, order) in tr {
        fnv(&mut h, *t as u64);
        fnv(&mut h, *ev as u64);
        fnv(&mut h, *k as u64);
        for o in order {
            fnv(&mut h, *o as u64);
        }
        fnv(&mut h, 0xFFFF);
        for o in &prev_order {
            if !order.contains(o) {
                evicted = true;
            }
        }
        if *ev == 0 {
            let missing = !order.contains(k);
            if missing && ever_present.contains(k) {
                reinserted = true;
            }
            if missing {
                for (ot, (ok, omiss)) in &in_flight {
                    if ot != t && *omiss {
                        if ok == k {
                            same_size = true;
                        }
                        if order.len() >= capacity {
                            race_evict = true;
                        }
                    }
                }
            }
            in_flight.insert(*t, (*k, missing));
        } else {
            in_flight.remove(t);
        }
        for o in order {
            ever_present.insert(*o);
        }
        prev_order = order.clone();
    }
    if same_size {
        bump(probes, "two_threads_generated_same_size_concurrently");
    }
    if evicted {
        bump(probes, "eviction_ran");
    }
    if reinserted {
        bump(probes, "evicted_size_requested_again");
    }
    if race_evict {
        bump(probes, "concurrent_misses_while_cache_full");
    }
    h
}

// ---------------------------------------------------------------------------------------------
// worker: explores scenarios [from, to) with `iters` schedules each

fn shuttle_config(dir: &Path) -> Config {
    let mut c = Config::new();
    c.failure_persistence = FailurePersistence::File(Some(dir.to_path_buf()));
    c.silence_warnings = true;
    c
}

fn run_scenario(s: &Scenario, sched: &str, sched_seed: u64, iters: usize, dir: &Path, stats: &mut Stats) {
    let reference = StdArc::new(build_reference(s));
    let traces: StdArc<StdMutex<Vec<Vec<(usize, u8, u16, Vec<u16>)>>>> = StdArc::new(StdMutex::new(vec![]));
    let s2 = s.clone();
    let traces2 = traces.clone();
    let body = move || {
        let trace: Trace = StdArc::new(StdMutex::new(vec![]));
        execute(&s2, &reference, &trace);
        let t = std::mem::take(&mut *trace.lock().unwrap());
        traces2.lock().unwrap().push(t);
    };
    let cfg = shuttle_config(dir);
    match sched {
        "pct" => {
            let depth = 2 + (sched_seed % 3) as usize;
            Runner::new(PctScheduler::new_from_seed(sched_seed, depth, iters), cfg).run(body);
        }
        _ => {
            Runner::new(RandomScheduler::new_from_seed(sched_seed, iters), cfg).run(body);
        }
    }
    // shuttle's panic hook persists a schedule for every panic, also the provoked and caught ones:
    // an execution that completed has no use for them
    if let Ok(rd) = std::fs::read_dir(dir) {
        for e in rd.flatten() {
            if e.file_name().to_string_lossy().starts_with("schedule") {
                let _ = std::fs::remove_file(e.path());
            }
        }
    }
    let fired = CRASHES_FIRED.swap(0, std::sync::atomic::Ordering::SeqCst);
    if fired > 0 {
        *stats.probes.entry("client_crash_inside_plan_generation".to_string()).or_insert(0) += fired;
    }
    let cap = verif_plan_cache::CAPACITY;
    for tr in traces.lock().unwrap().iter() {
        stats.executions += 1;
        stats.steps += tr.len() as u64;
        let h = analyse(tr, cap, &mut stats.probes);
        stats.distinct_traces.push(h);
    }
}

fn worker(args: &[String]) -> i32 {
    // worker <seed> <from> <to> <iters> <dir>
    let seed: u64 = args[0].parse().unwrap();
    let from: u64 = args[1].parse().unwrap();
    let to: u64 = args[2].parse().unwrap();
    let iters: usize = args[3].parse().unwrap();
    let dir = PathBuf::from(&args[4]);
    std::fs::create_dir_all(&dir).unwrap();
    install_hook(&dir);
    let mut stats = Stats::default();
    for idx in from..to {
        let s = generate(seed, idx, verif_plan_cache::CAPACITY);
        for (sched, n) in [("random", iters - iters / 2), ("pct", iters / 2)] {
            if n == 0 {
                continue;
            }
            // progress marker: which scenario / scheduler is running (read by the driver on failure)
            std::fs::write(
                dir.join("current.json"),
                serde_json::to_string(&json!({"idx": idx, "sched": sched, "scenario": s})).unwrap(),
            )
            .unwrap();
            run_scenario(&s, sched, run_seed(seed, idx) ^ 0x5eed, n, &dir, &mut stats);
        }
        stats.scenarios += 1;
    }
    stats.distinct_traces.sort_unstable();
    stats.distinct_traces.dedup();
    std::fs::write(dir.join("stats.json"), serde_json::to_string(&stats).unwrap()).unwrap();
    let _ = std::fs::remove_file(dir.join("current.json"));
    0
}

fn install_hook(dir: &Path) {
    let dir = dir.to_path_buf();
    std::panic::set_hook(Box::new(move |info| {
        let msg = if let Some(s) = info.payload().downcast_ref::<&str>() {
            s.to_string()
        } else if let Some(s) = info.payload().downcast_ref::<String>() {
            s.clone()
        } else {
            "<non-string panic>".to_string()
        };
        let loc = info.location().map(|l| format!("{}:{}", l.file(), l.line())).unwrap_or_default();
        if EXPECTED_PANICS.load(std::sync::atomic::Ordering::SeqCst) > 0 && msg.contains("MAX_SOURCE_SYMBOLS_PER_BLOCK") {
            return; // the provoked client crash itself
        }
        let p = dir.join("panic.txt");
        if !p.exists() {
            let _ = std::fs::write(p, format!("{msg} @ {loc}"));
        }
    }));
}

/// probe <scenario.json> <iters> <dir> <seed>: search schedules for one explicit scenario
fn probe(args: &[String]) -> i32 {
    let s: Scenario = serde_json::from_str(&std::fs::read_to_string(&args[0]).unwrap()).unwrap();
    let iters: usize = args[1].parse().unwrap();
    let dir = PathBuf::from(&args[2]);
    let seed: u64 = args[3].parse().unwrap();
    std::fs::create_dir_all(&dir).unwrap();
    install_hook(&dir);
    let mut stats = Stats::default();
    for (sched, n) in [("random", iters - iters / 2), ("pct", iters / 2)] {
        std::fs::write(dir.join("current.json"), serde_json::to_string(&json!({"idx": 0, "sched": sched, "scenario": s})).unwrap()).unwrap();
        run_scenario(&s, sched, seed, n, &dir, &mut stats);
    }
    0
}

/// replay-one <scenario.json> <schedule-file> <dir>
fn replay_one(args: &[String]) -> i32 {
    let s: Scenario = serde_json::from_str(&std::fs::read_to_string(&args[0]).unwrap()).unwrap();
    let schedule = std::fs::read_to_string(&args[1]).unwrap();
    let dir = PathBuf::from(&args[2]);
    std::fs::create_dir_all(&dir).unwrap();
    install_hook(&dir);
    let reference = StdArc::new(build_reference(&s));
    shuttle::replay(
        move || {
            let trace: Trace = StdArc::new(StdMutex::new(vec![]));
            execute(&s, &reference, &trace);
        },
        &schedule,
    );
    0
}

// ---------------------------------------------------------------------------------------------
// driver

fn oracle_of(panic_msg: &str) -> String {
    if let Some(i) = panic_msg.find("ORACLE[") {
        let rest = &panic_msg[i + 7..];
        if let Some(j) = rest.find(']') {
            return rest[..j].to_string();
        }
    }
    let l = panic_msg.to_lowercase();
    if l.contains("already borrowed") || l.contains("already mutably borrowed") {
        // std thread-local RefCell state shared between shuttle tasks (shuttle runs all tasks on one
        // OS thread): an artefact of the simulation, not an interleaving of real threads
        return "harness-limit-thread-local".into();
    }
    if l.contains("deadlock") {
        return "deadlock".into();
    }
    if l.contains("exceeded max_steps") || l.contains("max_steps") {
        return "livelock".into();
    }
    // (shuttle's deadlock and step-limit reports above are verdicts about the code under test)
    // any other panic raised inside shuttle's own sources (an internal assertion of its Mutex/scheduler model)
    // says nothing about the code under test
    if let Some(first) = panic_msg.lines().next() {
        if let Some((_, loc)) = first.rsplit_once(" @ ") {
            if loc.contains("/shuttle-") {
                return "harness-limit-shuttle-internal".into();
            }
        }
    }
    "panic".into()
}

struct Failure {
    idx: u64,
    scenario: Scenario,
    schedule: String,
    panic: String,
}

fn self_exe() -> PathBuf {
    std::env::current_exe().unwrap()
}

fn scratch_root() -> PathBuf {
    let base = std::env::var("VERIF_DIR").unwrap_or_else(|_| "/verif".into());
    let p = PathBuf::from(base).join("shuttle17").join("target").join("scratch");
    let _ = std::fs::create_dir_all(&p);
    p
}

fn read_failure(dir: &Path) -> Option<(Scenario, u64, String, String)> {
    let cur: Value = serde_json::from_str(&std::fs::read_to_string(dir.join("current.json")).ok()?).ok()?;
    let s: Scenario = serde_json::from_value(cur["scenario"].clone()).ok()?;
    let idx = cur["idx"].as_u64().unwrap_or(0);
    let mut sched_files: Vec<PathBuf> = std::fs::read_dir(dir)
        .ok()?
        .filter_map(|e| e.ok().map(|e| e.path()))
        .filter(|p| p.file_name().map(|n| n.to_string_lossy().starts_with("schedule")).unwrap_or(false))
        .collect();
    sched_files.sort();
    // the last one: earlier files (if any) belong to provoked client crashes of the same execution
    let schedule = std::fs::read_to_string(sched_files.last()?).ok()?;
    let panic = std::fs::read_to_string(dir.join("panic.txt")).unwrap_or_else(|_| "<process died without a recorded panic>".into());
    Some((s, idx, schedule, panic))
}

/// Search schedules for `s` in a sub-process; Some((schedule, panic)) if a failing one is found.
fn probe_scenario(s: &Scenario, iters: usize, seed: u64, tag: &str) -> Option<(String, String)> {
    let dir = scratch_root().join(format!("probe-{}-{tag}", std::process::id()));
    let _ = std::fs::remove_dir_all(&dir);
    std::fs::create_dir_all(&dir).unwrap();
    let sf = dir.join("scenario.json");
    std::fs::write(&sf, serde_json::to_string(s).unwrap()).unwrap();
    let st = Command::new(self_exe())
        .args(["probe", sf.to_str().unwrap(), &iters.to_string(), dir.to_str().unwrap(), &seed.to_string()])
        .stdout(std::process::Stdio::null())
        .stderr(std::process::Stdio::null())
        .status()
        .ok()?;
    let r = if st.success() { None } else { read_failure(&dir).map(|(_, _, sch, p)| (sch, p)) };
    let _ = std::fs::remove_dir_all(&dir);
    r
}

fn replay_scenario(s: &Scenario, schedule: &str, tag: &str) -> Option<String> {
    let dir = scratch_root().join(format!("replay-{}-{tag}", std::process::id()));
    let _ = std::fs::remove_dir_all(&dir);
    std::fs::create_dir_all(&dir).unwrap();
    let sf = dir.join("scenario.json");
    let cf = dir.join("schedule.txt");
    std::fs::write(&sf, serde_json::to_string(s).unwrap()).unwrap();
    std::fs::write(&cf, schedule).unwrap();
    let st = Command::new(self_exe())
        .args(["replay-one", sf.to_str().unwrap(), cf.to_str().unwrap(), dir.to_str().unwrap()])
        .stdout(std::process::Stdio::null())
        .stderr(std::process::Stdio::null())
        .status()
        .ok()?;
    let r = if st.success() {
        None
    } else {
        Some(std::fs::read_to_string(dir.join("panic.txt")).unwrap_or_else(|_| "<died>".into()))
    };
    let _ = std::fs::remove_dir_all(&dir);
    r
}

fn minimise(f: &Failure) -> (Scenario, String, String) {
    let oracle = oracle_of(&f.panic);
    let mut best = (f.scenario.clone(), f.schedule.clone(), f.panic.clone());
    let mut budget = 60;
    let mut progress = true;
    let deadline = Instant::now() + std::time::Duration::from_secs(60);
    let probe_iters = if verif_plan_cache::CAPACITY > 8 { 60 } else { 3000 };
    while progress && budget > 0 && Instant::now() < deadline {
        progress = false;
        // candidates: drop a whole thread, then drop single requests
        let mut cands: Vec<Scenario> = vec![];
        if best.0.threads.len() > 2 {
            for t in 0..best.0.threads.len() {
                let mut c = best.0.clone();
                c.threads.remove(t);
                cands.push(c);
            }
        }
        for t in 0..best.0.threads.len() {
            for i in (0..best.0.threads[t].len()).rev() {
                if best.0.threads[t].len() > 1 {
                    let mut c = best.0.clone();
                    c.threads[t].remove(i);
                    cands.push(c);
                }
            }
        }
        for (n, c) in cands.into_iter().enumerate() {
            if budget == 0 || Instant::now() >= deadline {
                break;
            }
            budget -= 1;
            if let Some((sch, p)) = probe_scenario(&c, probe_iters, 99 + n as u64, "min") {
                if oracle_of(&p) == oracle {
                    best = (c, sch, p);
                    progress = true;
                    break;
                }
            }
        }
    }
    best
}

fn driver(tier: &str) -> i32 {
    let t0 = Instant::now();
    let seed: u64 = std::env::var("VERIF_SEED").ok().and_then(|s| s.trim().parse().ok()).unwrap_or(DEFAULT_SEED);
    let scale: f64 = std::env::var("VERIF_SCALE").ok().and_then(|s| s.parse().ok()).unwrap_or(1.0);
    let workers: usize = std::env::var("VERIF_WORKERS").ok().and_then(|s| s.parse().ok()).unwrap_or_else(|| std::thread::available_parallelism().map(|n| n.get()).unwrap_or(4));
    let verif_dir = PathBuf::from(std::env::var("VERIF_DIR").unwrap_or_else(|_| "/verif".into()));
    let capacity = verif_plan_cache::CAPACITY;
    // the capacity-3 cache also runs in a build with debug assertions and overflow checks on
    // (debug-only code on the cache path: assertions about ownership, counters)
    let checked = cfg!(debug_assertions);
    let flavour = if capacity == 3 { if checked { "smallcache-checked" } else { "smallcache" } } else { "cap64" };
    let quick = tier != "thorough";
    // (scenarios, schedules per scenario)
    let (scenarios, iters): (u64, usize) = match (quick, capacity == 3) {
        (true, true) if checked => (160, 50),
        (false, true) if checked => (2_000, 100),
        (true, true) => (400, 50),
        (false, true) => (10_000, 200),
        (true, false) => (16, 6),
        (false, false) => (320, 20),
    };
    let scenarios = ((scenarios as f64 * scale) as u64).max(workers as u64);
    let chunk = 8u64.min(scenarios.div_ceil(workers as u64)).max(1);
    let nchunks = scenarios.div_ceil(chunk);
    let root = scratch_root().join(format!("run-{}-{flavour}", std::process::id()));
    let _ = std::fs::remove_dir_all(&root);
    std::fs::create_dir_all(&root).unwrap();

    let next = std::sync::atomic::AtomicU64::new(0);
    let stop_at = std::sync::atomic::AtomicU64::new(u64::MAX);
    let results: StdMutex<BTreeMap<u64, Result<Stats, Failure>>> = StdMutex::new(BTreeMap::new());
    std::thread::scope(|sc| {
        for _ in 0..workers {
            sc.spawn(|| loop {
                let c = next.fetch_add(1, std::sync::atomic::Ordering::SeqCst);
                if c >= nchunks || c > stop_at.load(std::sync::atomic::Ordering::SeqCst) {
                    break;
                }
                let from = c * chunk;
                let to = ((c + 1) * chunk).min(scenarios);
                let dir = root.join(format!("chunk{c}"));
                let st = Command::new(self_exe())
                    .args(["worker", &seed.to_string(), &from.to_string(), &to.to_string(), &iters.to_string(), dir.to_str().unwrap()])
                    .stdout(std::process::Stdio::null())
                    .stderr(std::process::Stdio::null())
                    .status();
                let ok = st.map(|s| s.success()).unwrap_or(false);
                let r = if ok {
                    match std::fs::read_to_string(dir.join("stats.json")).ok().and_then(|t| serde_json::from_str::<Stats>(&t).ok()) {
                        Some(s) => Ok(s),
                        None => Err(Failure { idx: from, scenario: Scenario { threads: vec![], shape: "?".into() }, schedule: String::new(), panic: "HARNESS: worker wrote no stats".into() }),
                    }
                } else {
                    match read_failure(&dir) {
                        Some((s, idx, schedule, panic)) => Err(Failure { idx, scenario: s, schedule, panic }),
                        None => Err(Failure { idx: from, scenario: Scenario { threads: vec![], shape: "?".into() }, schedule: String::new(), panic: "HARNESS: worker died without a persisted schedule".into() }),
                    }
                };
                if r.is_err() {
                    stop_at.fetch_min(c, std::sync::atomic::Ordering::SeqCst);
                }
                results.lock().unwrap().insert(c, r);
                let _ = std::fs::remove_dir_all(&dir);
            });
        }
    });
    let _ = std::fs::remove_dir_all(&root);

    let mut total = Stats::default();
    let mut distinct: HashSet<u64> = HashSet::new();
    let mut failure: Option<Failure> = None;
    for (_, r) in results.into_inner().unwrap() {
        match r {
            Ok(s) => {
                total.executions += s.executions;
                total.scenarios += s.scenarios;
                total.steps += s.steps;
                for (k, v) in s.probes {
                    *total.probes.entry(k).or_insert(0) += v;
                }
                distinct.extend(s.distinct_traces);
            }
            Err(f) => {
                if failure.is_none() {
                    failure = Some(f);
                }
                break;
            }
        }
    }
    for k in ["two_threads_generated_same_size_concurrently", "eviction_ran", "evicted_size_requested_again", "concurrent_misses_while_cache_full"] {
        total.probes.entry(k.to_string()).or_insert(0);
    }
    let crash_fault_on = std::env::var("VERIF_C17_NO_CRASH").is_err();
    if capacity == 3 && crash_fault_on {
        total.probes.entry("client_crash_inside_plan_generation".to_string()).or_insert(0);
    }

    let mut code = 0;
    let mut violations = 0;
    if let Some(f) = failure {
        if f.panic.starts_with("HARNESS:") {
            eprintln!("HARNESS-ERROR: {}", f.panic);
            return 2;
        }
        if oracle_of(&f.panic) == "harness-limit-shuttle-internal" {
            let has_crash = f.scenario.threads.iter().flatten().any(|r| matches!(r, Req::Crash));
            if has_crash && std::env::var("VERIF_C17_NO_CRASH").is_err() {
                // Known gap of the model: a task that panics while it holds a shuttle Mutex (the
                // provoked client crash, in code that generates the plan under the lock) trips an
                // internal assertion of shuttle's Mutex. Under std the lock is poisoned and the
                // code under test recovers (or fails to: the sequential engine injects the same
                // crash against the real std Mutex). The batch is run again without that fault.
                eprintln!("NOTE: C17 ({flavour}): a client crash while the cache lock is held cannot be simulated by shuttle ({}); re-running the batch without the client-crash fault (the sequential engine injects it against the real std Mutex)", f.panic.lines().next().unwrap_or(""));
                let st = std::process::Command::new(self_exe()).arg(tier).env("VERIF_C17_NO_CRASH", "1").status();
                return st.ok().and_then(|s| s.code()).unwrap_or(2);
            }
            eprintln!("HARNESS-ERROR: panic inside shuttle's own code ({}); this is a limit of the simulation, not a reported violation; the sequential engine still runs.", f.panic.lines().next().unwrap_or(""));
            return 3;
        }
        if (oracle_of(&f.panic) == "deadlock" || oracle_of(&f.panic) == "livelock")
            && f.scenario.threads.iter().flatten().any(|r| matches!(r, Req::Crash))
            && std::env::var("VERIF_C17_NO_CRASH").is_err()
        {
            // Same gap of the model, other symptom: the provoked client crash unwinds through a held shuttle
            // Mutex, which shuttle never releases (under std the lock is poisoned and handed on), so every
            // other task blocks on it and shuttle reports a deadlock. A deadlock in a scenario *with* a
            // client crash is therefore not a verdict: the batch is run again without that fault - a
            // deadlock that does not need the crash shows up again there and is reported - and the
            // crash-dependent ones (a waiter for a generation that died) are the business of the sequential
            // engine, whose watchdog reports a request that never returns against the real std Mutex.
            eprintln!("NOTE: C17 ({flavour}): deadlock in a scenario with a provoked client crash ({}); shuttle does not release a Mutex held by a panicking task, so this is not a verdict: re-running the batch without the client-crash fault (the sequential engine injects it against the real std Mutex and has a hang watchdog)", f.panic.lines().next().unwrap_or(""));
            let st = std::process::Command::new(self_exe()).arg(tier).env("VERIF_C17_NO_CRASH", "1").status();
            return st.ok().and_then(|s| s.code()).unwrap_or(2);
        }
        if oracle_of(&f.panic) == "harness-limit-thread-local" {
            eprintln!("HARNESS-ERROR: the code under test keeps state in std thread-local storage on the cache path; shuttle runs all simulated threads on one OS thread, so their thread-locals alias ({}). This is a limit of the simulation, not a reported violation; the sequential engine still runs.", f.panic.lines().next().unwrap_or(""));
            return 3;
        }
        violations = 1;
        let oracle = oracle_of(&f.panic);
        let (ms, msch, mpanic) = minimise(&f);
        // the minimised pair must replay in a fresh process; otherwise fall back to the original
        let (fs, fsch, fpanic) = match replay_scenario(&ms, &msch, "final") {
            Some(p) if oracle_of(&p) == oracle => (ms, msch, mpanic),
            _ => (f.scenario.clone(), f.schedule.clone(), f.panic.clone()),
        };
        let n_from: usize = f.scenario.threads.iter().map(|t| t.len()).sum();
        let n_to: usize = fs.threads.iter().map(|t| t.len()).sum();
        let doc = json!({
            "format": 1, "property": "C17", "oracle": oracle, "seed": seed, "run": f.idx, "engine": "shuttle",
            "signature": format!("shuttle:{flavour}:{oracle}"),
            "scenario": {"flavour": flavour, "capacity": capacity, "threads": fs.threads, "shape": fs.shape, "shuttle_schedule": fsch},
            "observed": fpanic,
            "minimised_from": {"events": n_from, "to": n_to},
        });
        let dir = verif_dir.join("replays");
        let _ = std::fs::create_dir_all(&dir);
        let path = dir.join(format!("C17_{oracle}_{flavour}_{seed}_{}.json", f.idx));
        std::fs::write(&path, serde_json::to_string_pretty(&doc).unwrap()).unwrap();
        let known = known_open(&verif_dir, &format!("shuttle:{flavour}:{oracle}"));
        if known {
            println!("KNOWN-FINDING: property=C17 shuttle:{flavour}:{oracle} ({fpanic})");
        } else {
            println!("VIOLATION property=C17 replay={} oracle={oracle} :: {}", path.display(), fpanic.lines().next().unwrap_or(""));
            code = 1;
        }
    }
    let wall = t0.elapsed().as_secs_f64();
    for (k, v) in &total.probes {
        if *v == 0 && violations == 0 {
            eprintln!("WARNING: C17 probe '{k}' never fired in this batch ({flavour})");
        }
    }
    // evidence fragment for this flavour; run.sh merges the flavours into evidence/C17.json
    let sample = generate(seed, 0, capacity);
    let frag = json!({
        "flavour": flavour, "capacity": capacity, "tier": if quick {"quick"} else {"thorough"}, "seed": seed,
        "scenarios": total.scenarios, "executions": total.executions, "schedules_per_scenario": iters,
        "distinct_traces": distinct.len(), "trace_events": total.steps, "probes": total.probes,
        "wall_s": wall, "violations": violations,
        "client_crash_fault": if crash_fault_on { "enabled" } else { "disabled for this batch: shuttle cannot model a panic that unwinds through a held Mutex (the sequential engine injects the crash against the real std Mutex)" },
        "sample_scenario": sample,
    });
    let fdir = verif_dir.join("shuttle17").join("target");
    let _ = std::fs::create_dir_all(&fdir);
    std::fs::write(fdir.join(format!("evidence-{flavour}.json")), serde_json::to_string_pretty(&frag).unwrap()).unwrap();
    println!(
        "C17 {} [{flavour}, capacity {capacity}]: {} scenarios, {} executions, {} distinct traces, {:.1}s",
        if quick { "quick" } else { "thorough" }, total.scenarios, total.executions, distinct.len(), wall
    );
    code
}

fn known_open(verif_dir: &Path, signature: &str) -> bool {
    let Ok(t) = std::fs::read_to_string(verif_dir.join("known_findings.json")) else { return false };
    let Ok(v) = serde_json::from_str::<Value>(&t) else { return false };
    v["findings"].as_array().map(|a| a.iter().any(|f| f["status"] == "open" && f["property"] == "C17" && f["signature"] == signature)).unwrap_or(false)
}

fn replay_cmd(file: &str) -> i32 {
    let doc: Value = serde_json::from_str(&std::fs::read_to_string(file).expect("read replay file")).expect("parse replay file");
    let threads: Vec<Vec<Req>> = serde_json::from_value(doc["scenario"]["threads"].clone()).expect("threads");
    let s = Scenario { threads, shape: doc["scenario"]["shape"].as_str().unwrap_or("").to_string() };
    let schedule = doc["scenario"]["shuttle_schedule"].as_str().unwrap_or("").to_string();
    let cap = doc["scenario"]["capacity"].as_u64().unwrap_or(0) as usize;
    if cap != verif_plan_cache::CAPACITY {
        eprintln!("HARNESS-ERROR: replay file is for capacity {cap}, this binary has {}", verif_plan_cache::CAPACITY);
        return 2;
    }
    match replay_scenario(&s, &schedule, "cmd") {
        Some(p) if p.contains("replay.rs") && p.contains("shuttle-schedulers") => {
            // the recorded schedule no longer matches the scheduling points of the code under test:
            // the failing interleaving does not exist in this tree
            println!("replay: recorded schedule does not apply to this tree ({}); violation not reproduced", p.lines().next().unwrap_or(""));
            0
        }
        Some(p) => {
            println!("VIOLATION property=C17 replay={file} oracle={} :: {}", oracle_of(&p), p.lines().next().unwrap_or(""));
            1
        }
        None => {
            println!("replay: scenario passes under the recorded schedule");
            0
        }
    }
}

fn main() {
    let args: Vec<String> = std::env::args().collect();
    let code = match args.get(1).map(|s| s.as_str()) {
        Some("worker") => worker(&args[2..]),
        Some("probe") => probe(&args[2..]),
        Some("replay-one") => replay_one(&args[2..]),
        Some("replay") => replay_cmd(&args[2]),
        Some("quick") => driver("quick"),
        Some("thorough") => driver("thorough"),
        _ => {
            eprintln!("usage: c17 quick|thorough|replay <file>");
            2
        }
    };
    std::process::exit(code);
}
