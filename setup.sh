#!/bin/bash
# Build every flavour of the framework once, offline, from files on disk only.
set -u
HERE="$(cd "$(dirname "${BASH_SOURCE[0]}")" && pwd)"
export CARGO_NET_OFFLINE=true
mkdir -p "$HERE/evidence" "$HERE/replays" "$HERE/sim/target" "$HERE/shuttle17/target"
fail=0
for pf in "release std" "checked std" "release nostd" "checked nostd"; do
  set -- $pf
  feat=(); [ "$2" = nostd ] && feat=(--no-default-features)
  ( cd "$HERE/sim" && cargo build --quiet --profile "$1" "${feat[@]}" --target-dir "$HERE/sim/target/$2" ) || { echo "setup: build of rqsim $1/$2 failed" >&2; fail=1; }
done
for fl in small cap64 smallchk; do
  flags="--cfg raptorq_verif --cfg raptorq_verif_shuttle"; [ "$fl" = small ] && flags="$flags --cfg raptorq_verif_smallcache"
  [ "$fl" = smallchk ] && flags="$flags --cfg raptorq_verif_smallcache -C debug-assertions=on -C overflow-checks=on"
  ( cd "$HERE/shuttle17" && RUSTFLAGS="$flags" cargo build --quiet --release --target-dir "$HERE/shuttle17/target/$fl" ) || { echo "setup: build of c17 $fl failed" >&2; fail=1; }
done
exit $fail
