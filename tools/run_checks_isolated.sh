#!/bin/bash
# run_checks_isolated.sh <patch.diff|none> <tier> <check-id>...
# Same as run_checks_on_mutant.sh but without touching /repo or /verif: a copy of the framework
# under /tmp/vcopy is pointed at a scratch worktree of /repo (/tmp/wt_iso) that carries the change.
# Used while long runs that read /repo are in flight. (The registered checks always use /repo.)
set -u
PATCH="$1"; TIER="$2"; shift 2
TAG="${ISO_TAG:-}"; WT=/tmp/wt_iso$TAG; VC=/tmp/vcopy$TAG   # ISO_TAG=<suffix> allows a second instance in parallel
git -C /repo worktree remove --force "$WT" >/dev/null 2>&1
git -C /repo worktree add -q --detach "$WT" HEAD || exit 2
if [ "$PATCH" != none ]; then ( cd "$WT" && git apply "$PATCH" ) || { echo "PATCH-DOES-NOT-APPLY $PATCH"; exit 2; }; fi
mkdir -p "$VC"
rsync -a --delete --exclude target --exclude replays --exclude evidence --exclude .git /verif/ "$VC"/
sed -i "s|path = \"/repo\"|path = \"$WT\"|" "$VC/sim/Cargo.toml"
sed -i "s|path = \"/repo/src/lib.rs\"|path = \"$WT/src/lib.rs\"|" "$VC/shadow/Cargo.toml"
mkdir -p "$VC/evidence" "$VC/replays"
for id in "$@"; do
  T0=$(date +%s)
  OUT=$(cd "$VC" && VERIF_DIR="$VC" ./check "$id" "$TIER" 2>&1); RC=$?
  T1=$(date +%s)
  V=$(echo "$OUT" | grep -m1 "^VIOLATION" | cut -c1-260)
  echo "CHECK $id rc=$RC $((T1-T0))s ${V:-$(echo "$OUT" | grep -m1 HARNESS-ERROR | cut -c1-200)}"
done
git -C /repo worktree remove --force "$WT" >/dev/null 2>&1
