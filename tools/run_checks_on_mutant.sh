#!/bin/bash
# run_checks_on_mutant.sh <patch.diff> <tier> <check-id>...
# Applies a seeded change to /repo, runs the named checks, and undoes the change straight afterwards.
set -u
PATCH="$1"; TIER="$2"; shift 2
cd /repo || exit 2
[ -z "$(git status --porcelain --untracked-files=no)" ] || { echo "repo not clean"; exit 2; }
git apply "$PATCH" || { echo "PATCH-DOES-NOT-APPLY $PATCH"; exit 2; }
# evidence written while a seeded change is applied must not replace the clean-tree evidence
EVBAK=$(mktemp -d /tmp/evidence_bak.XXXXXX); cp -a /verif/evidence/. "$EVBAK"/ 2>/dev/null
trap 'git -C /repo checkout -- .; rm -rf /verif/evidence; mkdir -p /verif/evidence; cp -a "$EVBAK"/. /verif/evidence/; rm -rf "$EVBAK"' EXIT
for id in "$@"; do
  T0=$(date +%s)
  OUT=$(cd /verif && ./check "$id" "$TIER" 2>&1); RC=$?
  T1=$(date +%s)
  V=$(echo "$OUT" | grep -m1 "^VIOLATION" | cut -c1-260)
  echo "CHECK $id rc=$RC $((T1-T0))s ${V:-$(echo "$OUT" | grep -m1 HARNESS-ERROR | cut -c1-200)}"
done
