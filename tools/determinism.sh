#!/bin/bash
# Determinism self-test: N runs per engine, each executed in separate processes at worker counts
# 1, 3 and 16 (and twice at 16); the per-run digests (resolved scenario, outcome, counters, ticks,
# transcript) must be identical. Usage: tools/determinism.sh [N] [seed...]
set -u
HERE="$(cd "$(dirname "${BASH_SOURCE[0]}")/.." && pwd)"
N="${1:-2000}"; shift || true
SEEDS=("$@"); [ ${#SEEDS[@]} -eq 0 ] && SEEDS=(20260923 1 987654321)
BIN="$HERE/sim/target/std/release/rqsim"
( cd "$HERE/sim" && cargo build --quiet --release --target-dir "$HERE/sim/target/std" ) || exit 2
TMP="$HERE/sim/target/scratch/determinism.$$"; mkdir -p "$TMP"
rc=0
for seed in "${SEEDS[@]}"; do
  for prop in C01 C08 C18 C07 C02 C16; do
    n=$N; [ "$prop" = C07 ] && n=$((N/4))
    for w in 1 3 16 16b; do
      VERIF_SEED=$seed VERIF_WORKERS=${w%b} "$BIN" rundigests $prop $n > "$TMP/$prop.$seed.$w" &
    done
    wait
    for w in 3 16 16b; do
      if ! cmp -s "$TMP/$prop.$seed.1" "$TMP/$prop.$seed.$w"; then
        echo "NON-DETERMINISM: $prop seed=$seed workers=1 vs $w: $(diff "$TMP/$prop.$seed.1" "$TMP/$prop.$seed.$w" | head -3)"; rc=1
      fi
    done
    echo "determinism $prop seed=$seed: $(wc -l < "$TMP/$prop.$seed.1") runs x 4 processes (workers 1,3,16,16) $( [ $rc -eq 0 ] && echo identical )"
  done
done
rm -rf "$TMP"
exit $rc
