#!/bin/bash
# confirm_mutant.sh <dir with patch.diff + demo.rs> <tag>
# In a scratch worktree of /repo (outside /repo and /verif): the demo passes on the clean tree,
# fails with the patch, and the repository's own test suite still passes with the patch.
set -u
MDIR="$1"; TAG="$2"
WT=/tmp/wt_eval_$TAG
export CARGO_TARGET_DIR=/tmp/wt_eval_target CARGO_NET_OFFLINE=true
git -C /repo worktree remove --force "$WT" >/dev/null 2>&1
git -C /repo worktree add -q --detach "$WT" HEAD || exit 2
cd "$WT" || exit 2
mkdir -p tests; cp "$MDIR/demo.rs" "tests/demo_$TAG.rs"
FEAT=""; grep -q "benchmarking" "$MDIR/README.md" "$MDIR/demo.rs" 2>/dev/null && FEAT="--features benchmarking"
run_demo() { timeout 1500 cargo test --offline --release $FEAT --test "demo_$TAG" >"$1" 2>&1; echo $?; }
R_CLEAN=$(run_demo /tmp/confirm_${TAG}_clean.log)
if ! git apply "$MDIR/patch.diff"; then echo "RESULT $TAG patch-does-not-apply"; cd /; git -C /repo worktree remove --force "$WT"; exit 1; fi
R_MUT=$(run_demo /tmp/confirm_${TAG}_mut.log)
rm -f "tests/demo_$TAG.rs"
timeout 1500 cargo test --offline --workspace --no-fail-fast >/tmp/confirm_${TAG}_suite.log 2>&1
SUITE=$(grep -E "^test result:" /tmp/confirm_${TAG}_suite.log | head -1)
RUSTFLAGS="--cfg raptorq_verif" cargo build --offline --features benchmarking >/tmp/confirm_${TAG}_hook.log 2>&1; HOOK=$?
cd /; git -C /repo worktree remove --force "$WT"
echo "RESULT $TAG demo_clean_exit=$R_CLEAN demo_mutant_exit=$R_MUT hooks_build_exit=$HOOK suite: $SUITE"
