mod alloc;
mod clock;
mod prng;
mod report;
mod tables;
mod util;

#[cfg(feature = "rq-std")]
mod c16;
#[cfg(feature = "rq-std")]
mod c17seq;
mod c02;
mod c03;
mod c07;
mod dbg;
mod net;
mod netcheck;
mod rank;
mod sim;

use util::Ctx;

#[global_allocator]
static GLOBAL: alloc::SeamAlloc = alloc::SeamAlloc;

fn usage() -> ! {
    eprintln!("usage: rqsim <C01|C02|C03|C07|C08|C16|C18> <quick|thorough> | rqsim replay <file>");
    std::process::exit(2)
}

fn main() {
    util::install_panic_hook();
    let args: Vec<String> = std::env::args().collect();
    if args.len() < 3 {
        usage();
    }
    #[cfg(feature = "rq-std")]
    if args[1] == "C17SEQ" {
        // the sequential C17 engine runs under the clock interposer (re-executes this process once)
        clock::ensure(&Ctx::from_env("C17", &args[2]).verif_dir);
    }
    let code = match args[1].as_str() {
        "replay" => {
            let text = std::fs::read_to_string(&args[2]).unwrap_or_else(|e| {
                eprintln!("HARNESS-ERROR: cannot read {}: {e}", args[2]);
                std::process::exit(2)
            });
            let mut doc: serde_json::Value = serde_json::from_str(&text).unwrap_or_else(|e| {
                eprintln!("HARNESS-ERROR: cannot parse {}: {e}", args[2]);
                std::process::exit(2)
            });
            doc["__path"] = serde_json::json!(args[2]);
            if let Some(r) = doc["clock_rate"].as_u64() {
                // found under a skewed clock: replayed under the same one
                clock::ensure_rate(&Ctx::from_env("", "quick").verif_dir, Some(r));
            }
            let prop = doc["property"].as_str().unwrap_or("").to_string();
            let ctx = Ctx::from_env(&prop, "quick");
            match doc["engine"].as_str().unwrap_or("") {
                #[cfg(feature = "rq-std")]
                "matrix" => c16::replay(&ctx, &doc),
                "net" => netcheck::replay(&ctx, &doc),
                "block" => c02::replay(&ctx, &doc),
                #[cfg(feature = "rq-std")]
                "cacheseq" => c17seq::replay(&ctx, &doc),
                "xbuild" => c07::replay(&ctx, &doc),
                "trial" => c03::replay(&ctx, &doc),
                e => {
                    eprintln!("HARNESS-ERROR: unknown engine {e}");
                    2
                }
            }
        }
        "c07-digests" => c07::cmd_digests(&args[2..]),
        "c07-exec" => c07::cmd_exec(&args[2..]),
        "rundigests" => {
            let ctx = Ctx::from_env(&args[2], "quick");
            netcheck::rundigests(&ctx, &args[2], args.get(3).and_then(|s| s.parse().ok()).unwrap_or(2000))
        }
        "showc07" => {
            netcheck::show_c07(args[2].parse().unwrap(), args[3].parse().unwrap(), args[4].parse().unwrap(), util::DEFAULT_SEED);
            0
        }
        "bigk" => {
            dbg::bigk(args[2].parse().unwrap(), args[3].parse().unwrap(), args[4].parse().unwrap());
            0
        }
        "prof" => {
            let p = match args[2].as_str() { "C08" => sim::Profile::C08, "C18" => sim::Profile::C18, "C07" => sim::Profile::C07, _ => sim::Profile::C01 };
            netcheck::prof(p, args.get(3).and_then(|s| s.parse().ok()).unwrap_or(300), util::DEFAULT_SEED, args.get(4).and_then(|s| s.parse().ok()).unwrap_or(400));
            0
        }
        prop => {
            let ctx = Ctx::from_env(prop, &args[2]);
            println!("rqsim property={} tier={} seed={} workers={}", prop, ctx.tier(), ctx.seed, ctx.workers);
            match prop {
                #[cfg(feature = "rq-std")]
                "C16" => c16::run(&ctx),
                #[cfg(feature = "rq-std")]
                "C17SEQ" => {
                    let mut c = ctx.clone();
                    c.property = "C17".into();
                    c17seq::run(&c)
                }
                "C02" | "C03" => {
                    if ctx.slice_rate.is_some() {
                        // self-check of the skewed clock: 2 ms of real sleep must look like minutes
                        let a = std::time::Instant::now();
                        std::thread::sleep(std::time::Duration::from_millis(2));
                        if a.elapsed().as_secs() < report::SKEW_RATE / 1000 {
                            eprintln!("HARNESS-ERROR: the clock interposer does not speed up std::time::Instant");
                            std::process::exit(2);
                        }
                    }
                    let slice = report::spawn_skew_slice(&ctx, &args[2]);
                    let rc = if prop == "C02" { c02::run(&ctx) } else { c03::run(&ctx) };
                    match slice {
                        Some(s) => {
                            let rc2 = s.finish(&ctx);
                            if rc == 2 || rc2 == 2 { 2 } else { rc.max(rc2) }
                        }
                        None => rc,
                    }
                }
                "C07" => c07::run(&ctx),
                "C01" => netcheck::run(&ctx, sim::Profile::C01),
                "C08" => netcheck::run(&ctx, sim::Profile::C08),
                "C18" => netcheck::run(&ctx, sim::Profile::C18),
                _ => usage(),
            }
        }
    };
    std::process::exit(code);
}
