//! The one source of randomness of the simulator: SplitMix64 for seeding, xoshiro256** per run.
//! All arithmetic is explicitly wrapping so that the `checked` build profile behaves identically.

#[derive(Clone, Debug)]
pub struct Rng {
    s: [u64; 4],
}

pub fn splitmix64(x: &mut u64) -> u64 {
    *x = x.wrapping_add(0x9E37_79B9_7F4A_7C15);
    let mut z = *x;
    z = (z ^ (z >> 30)).wrapping_mul(0xBF58_476D_1CE4_E5B9);
    z = (z ^ (z >> 27)).wrapping_mul(0x94D0_49BB_1331_11EB);
    z ^ (z >> 31)
}

/// Seed of run `run` of a batch started with `seed` (and a per-engine `stream` constant).
pub fn run_seed(seed: u64, stream: u64, run: u64) -> u64 {
    let mut x = seed ^ stream.wrapping_mul(0xD6E8_FEB8_6659_FD93);
    let a = splitmix64(&mut x);
    let mut y = a ^ run.wrapping_mul(0x9E37_79B9_7F4A_7C15);
    splitmix64(&mut y)
}

impl Rng {
    pub fn new(seed: u64) -> Rng {
        let mut x = seed;
        let s = [
            splitmix64(&mut x),
            splitmix64(&mut x),
            splitmix64(&mut x),
            splitmix64(&mut x),
        ];
        Rng { s }
    }

    pub fn next_u64(&mut self) -> u64 {
        let result = self.s[1].wrapping_mul(5).rotate_left(7).wrapping_mul(9);
        let t = self.s[1] << 17;
        self.s[2] ^= self.s[0];
        self.s[3] ^= self.s[1];
        self.s[1] ^= self.s[2];
        self.s[0] ^= self.s[3];
        self.s[2] ^= t;
        self.s[3] = self.s[3].rotate_left(45);
        result
    }

    /// uniform in 0..n (n > 0); slight modulo bias is irrelevant here
    pub fn below(&mut self, n: u64) -> u64 {
        debug_assert!(n > 0);
        // multiply-shift: unbiased enough and free of division by zero
        ((self.next_u64() as u128 * n as u128) >> 64) as u64
    }

    pub fn usize_below(&mut self, n: usize) -> usize {
        self.below(n as u64) as usize
    }

    /// uniform in lo..=hi
    pub fn range(&mut self, lo: u64, hi: u64) -> u64 {
        debug_assert!(lo <= hi);
        lo + self.below(hi - lo + 1)
    }

    pub fn urange(&mut self, lo: usize, hi: usize) -> usize {
        self.range(lo as u64, hi as u64) as usize
    }

    pub fn chance(&mut self, num: u64, den: u64) -> bool {
        self.below(den) < num
    }

    pub fn f64(&mut self) -> f64 {
        (self.next_u64() >> 11) as f64 / (1u64 << 53) as f64
    }

    pub fn pick<'a, T>(&mut self, xs: &'a [T]) -> &'a T {
        &xs[self.usize_below(xs.len())]
    }

    pub fn shuffle<T>(&mut self, xs: &mut [T]) {
        for i in (1..xs.len()).rev() {
            let j = self.usize_below(i + 1);
            xs.swap(i, j);
        }
    }

    pub fn fill(&mut self, buf: &mut [u8]) {
        for chunk in buf.chunks_mut(8) {
            let v = self.next_u64().to_le_bytes();
            chunk.copy_from_slice(&v[..chunk.len()]);
        }
    }

}

/// 128-bit digest (two independent FNV-1a style 64-bit lanes with different offsets/primes and a
/// final avalanche). Not cryptographic; used to compare transcripts between environments.
#[derive(Clone, Debug)]
pub struct Digest {
    a: u64,
    b: u64,
    n: u64,
}

impl Default for Digest {
    fn default() -> Self {
        Digest::new()
    }
}

impl Digest {
    pub fn new() -> Digest {
        Digest {
            a: 0xcbf2_9ce4_8422_2325,
            b: 0x6c62_272e_07bb_0142,
            n: 0,
        }
    }
    pub fn bytes(&mut self, data: &[u8]) {
        self.u64(data.len() as u64);
        for &x in data {
            self.a = (self.a ^ x as u64).wrapping_mul(0x0000_0100_0000_01B3);
            self.b = (self.b.rotate_left(5) ^ x as u64).wrapping_mul(0x9E37_79B9_7F4A_7C15);
        }
        self.n = self.n.wrapping_add(data.len() as u64);
    }
    pub fn u64(&mut self, v: u64) {
        for x in v.to_le_bytes() {
            self.a = (self.a ^ x as u64).wrapping_mul(0x0000_0100_0000_01B3);
            self.b = (self.b.rotate_left(5) ^ x as u64).wrapping_mul(0x9E37_79B9_7F4A_7C15);
        }
        self.n = self.n.wrapping_add(8);
    }
    pub fn str(&mut self, s: &str) {
        self.bytes(s.as_bytes());
    }
    pub fn finish(&self) -> (u64, u64) {
        let mut x = self.a ^ self.n;
        let mut y = self.b ^ self.n.rotate_left(32);
        (splitmix64(&mut x), splitmix64(&mut y))
    }
    pub fn hex(&self) -> String {
        let (a, b) = self.finish();
        format!("{:016x}{:016x}", a, b)
    }
    pub fn finish64(&self) -> u64 {
        let (a, b) = self.finish();
        a ^ b.rotate_left(17)
    }
}
