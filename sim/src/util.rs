//! Shared plumbing: panic capture, deterministic parallel batches, counters, CLI context.

use std::cell::RefCell;
use std::collections::BTreeMap;
use std::panic::{catch_unwind, AssertUnwindSafe};
use std::path::PathBuf;
use std::sync::atomic::{AtomicU64, Ordering};
use std::sync::Mutex;

thread_local! {
    static LAST_PANIC: RefCell<Option<String>> = const { RefCell::new(None) };
    static QUIET: RefCell<bool> = const { RefCell::new(false) };
}

/// Install a panic hook that records the message (with location) per thread and prints nothing for
/// panics raised inside `guarded` (they are results, not crashes of the harness).
pub fn install_panic_hook() {
    let default = std::panic::take_hook();
    std::panic::set_hook(Box::new(move |info| {
        let quiet = QUIET.with(|q| *q.borrow());
        let msg = if let Some(s) = info.payload().downcast_ref::<&str>() {
            s.to_string()
        } else if let Some(s) = info.payload().downcast_ref::<String>() {
            s.clone()
        } else {
            "<non-string panic>".to_string()
        };
        let loc = info
            .location()
            .map(|l| format!("{}:{}", l.file(), l.line()))
            .unwrap_or_default();
        LAST_PANIC.with(|p| *p.borrow_mut() = Some(format!("{msg} @ {loc}")));
        if !quiet {
            default(info);
        }
    }));
}

/// Run real code; a panic becomes Err(message @ file:line).
pub fn guarded<T>(f: impl FnOnce() -> T) -> Result<T, String> {
    let prev = QUIET.with(|q| std::mem::replace(&mut *q.borrow_mut(), true));
    let r = catch_unwind(AssertUnwindSafe(f));
    QUIET.with(|q| *q.borrow_mut() = prev);
    match r {
        Ok(v) => Ok(v),
        Err(_) => Err(LAST_PANIC
            .with(|p| p.borrow_mut().take())
            .unwrap_or_else(|| "<panic>".to_string())),
    }
}

/// Strip line numbers etc. so that the "class" of a panic survives minimisation steps.
pub fn panic_class(msg: &str) -> String {
    // keep the file name of the location and the first 40 chars of the message without digits
    let (m, loc) = match msg.rsplit_once(" @ ") {
        Some((m, l)) => (m, l),
        None => (msg, ""),
    };
    let file = loc.split(':').next().unwrap_or("");
    let file = file.rsplit('/').next().unwrap_or(file);
    let m: String = m
        .lines()
        .next()
        .unwrap_or("")
        .chars()
        .filter(|c| !c.is_ascii_digit())
        .take(40)
        .collect();
    format!("{m}|{file}")
}

/// Named counters (fault kinds fired, probes hit, ...). BTreeMap so that output order is stable.
#[derive(Default, Clone, Debug)]
pub struct Counters(pub BTreeMap<&'static str, u64>);

impl Counters {
    pub fn inc(&mut self, k: &'static str) {
        *self.0.entry(k).or_insert(0) += 1;
    }
    pub fn add(&mut self, k: &'static str, n: u64) {
        *self.0.entry(k).or_insert(0) += n;
    }
    pub fn touch(&mut self, k: &'static str) {
        self.0.entry(k).or_insert(0);
    }
    pub fn get(&self, k: &str) -> u64 {
        self.0.get(k).copied().unwrap_or(0)
    }
    pub fn merge(&mut self, o: &Counters) {
        for (k, v) in &o.0 {
            *self.0.entry(k).or_insert(0) += v;
        }
    }
    pub fn to_json(&self) -> serde_json::Value {
        serde_json::Value::Object(
            self.0
                .iter()
                .map(|(k, v)| (k.to_string(), serde_json::json!(v)))
                .collect(),
        )
    }
    pub fn zeros(&self) -> Vec<&'static str> {
        self.0.iter().filter(|(_, v)| **v == 0).map(|(k, _)| *k).collect()
    }
}

/// A set of 64-bit state hashes with a cap on memory; beyond the cap it keeps counting only what it
/// can still tell apart (conservative: the reported number is a lower bound on distinct states).
#[derive(Default, Clone)]
pub struct HashSet64 {
    set: std::collections::HashSet<u64>,
}
pub const HASHSET_CAP: usize = 6_000_000;
impl HashSet64 {
    pub fn insert(&mut self, h: u64) {
        if self.set.len() < HASHSET_CAP {
            self.set.insert(h);
        }
    }
    pub fn merge(&mut self, o: HashSet64) {
        for h in o.set {
            self.insert(h);
        }
    }
    pub fn len(&self) -> usize {
        self.set.len()
    }
}

#[derive(Clone, Debug)]
pub struct Ctx {
    pub property: String,
    pub quick: bool,
    pub seed: u64,
    pub workers: usize,
    pub verif_dir: PathBuf,
    /// multiplies the number of runs of a tier (VERIF_SCALE, e.g. 0.1 for smoke tests)
    pub scale: f64,
    /// Some(rate): this process is the skewed-clock slice of a check (child of the process that
    /// runs the check proper): its clock runs `rate` times fast; it writes a slice summary
    /// instead of the evidence file
    pub slice_rate: Option<u64>,
}

pub const DEFAULT_SEED: u64 = 20260923;

impl Ctx {
    pub fn from_env(property: &str, tier: &str) -> Ctx {
        let seed = std::env::var("VERIF_SEED")
            .ok()
            .and_then(|s| s.trim().parse::<u64>().ok())
            .unwrap_or(DEFAULT_SEED);
        let workers = std::env::var("VERIF_WORKERS")
            .ok()
            .and_then(|s| s.parse::<usize>().ok())
            .unwrap_or_else(|| {
                std::thread::available_parallelism()
                    .map(|n| n.get())
                    .unwrap_or(4)
            })
            .max(1);
        let scale = std::env::var("VERIF_SCALE")
            .ok()
            .and_then(|s| s.parse::<f64>().ok())
            .unwrap_or(1.0);
        let verif_dir = std::env::var("VERIF_DIR")
            .map(PathBuf::from)
            .unwrap_or_else(|_| PathBuf::from("/verif"));
        Ctx {
            property: property.to_string(),
            quick: tier != "thorough",
            seed,
            workers,
            verif_dir,
            scale,
            slice_rate: if std::env::var("VERIF_SLICE").is_ok() { Some(crate::clock::rate()) } else { None },
        }
    }
    pub fn tier(&self) -> &'static str {
        if self.quick {
            "quick"
        } else {
            "thorough"
        }
    }
    pub fn runs(&self, quick: u64, thorough: u64) -> u64 {
        let n = if self.quick { quick } else { thorough };
        ((n as f64 * self.scale) as u64).max(1)
    }
}

/// A wall-clock budget for harness-side work (minimisation), in seconds of *real* time whatever the
/// rate of the process's clock.
pub fn deadline_after(secs: u64) -> std::time::Instant {
    std::time::Instant::now() + std::time::Duration::from_secs(secs.saturating_mul(crate::clock::rate()))
}

/// Deterministic parallel fold over run indices 0..n. Chunks of fixed size are handed out in
/// increasing order; partial accumulators are merged in chunk order, so the result does not depend
/// on the number of workers. `f` returns Err to signal a violation: no chunk after the first
/// failing one is started, every earlier chunk completes, and the failure with the smallest run
/// index is returned.
pub fn par_fold<A, E, F, M>(
    n: u64,
    workers: usize,
    chunk: u64,
    f: F,
    mut merge: M,
    init: A,
) -> (A, Option<(u64, E)>)
where
    A: Default + Send,
    E: Send,
    F: Fn(u64, &mut A) -> Result<(), E> + Sync,
    M: FnMut(&mut A, A),
{
    let nchunks = n.div_ceil(chunk);
    let next = AtomicU64::new(0);
    let stop_at = AtomicU64::new(u64::MAX); // smallest failing chunk
    let parts: Mutex<BTreeMap<u64, A>> = Mutex::new(BTreeMap::new());
    let fails: Mutex<Vec<(u64, E)>> = Mutex::new(Vec::new());
    std::thread::scope(|s| {
        for _ in 0..workers.min(nchunks.max(1) as usize) {
            s.spawn(|| loop {
                let c = next.fetch_add(1, Ordering::SeqCst);
                if c >= nchunks || c > stop_at.load(Ordering::SeqCst) {
                    break;
                }
                let mut acc = A::default();
                let lo = c * chunk;
                let hi = ((c + 1) * chunk).min(n);
                for run in lo..hi {
                    if let Err(e) = f(run, &mut acc) {
                        fails.lock().unwrap().push((run, e));
                        stop_at.fetch_min(c, Ordering::SeqCst);
                        break;
                    }
                }
                parts.lock().unwrap().insert(c, acc);
            });
        }
    });
    let mut total = init;
    let stop = stop_at.load(Ordering::SeqCst);
    for (c, a) in parts.into_inner().unwrap() {
        if c <= stop {
            merge(&mut total, a);
        }
    }
    let mut fails = fails.into_inner().unwrap();
    fails.sort_by_key(|(r, _)| *r);
    (total, fails.into_iter().next())
}

pub fn unhex(s: &str) -> Vec<u8> {
    (0..s.len() / 2)
        .map(|i| u8::from_str_radix(&s[2 * i..2 * i + 2], 16).unwrap_or(0))
        .collect()
}
