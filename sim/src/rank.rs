//! Independent decodability oracle for C02: the RFC 6330 constraint matrix of a received set, built
//! from the RFC text (sections 5.3.3.3, 5.3.5.x, 5.7) with the harness's own GF(256) arithmetic,
//! and its rank over GF(256) by plain Gaussian elimination. Nothing here calls into raptorq; the
//! numeric tables (V0..V3, Table 2) are a vendored snapshot (`tables.rs`, see DESIGN.md section 8).

use crate::tables::{T2, V0, V1, V2, V3};
use std::sync::OnceLock;

// ---- GF(256) from the polynomial x^8 + x^4 + x^3 + x^2 + 1, no log/exp tables

pub fn gmul_slow(mut a: u8, mut b: u8) -> u8 {
    let mut p = 0u8;
    while b != 0 {
        if b & 1 != 0 {
            p ^= a;
        }
        let hi = a & 0x80;
        a <<= 1;
        if hi != 0 {
            a ^= 0x1D;
        }
        b >>= 1;
    }
    p
}

struct Field {
    mul: Vec<[u8; 256]>,
    inv: [u8; 256],
    alpha_pow: [u8; 255],
}

fn field() -> &'static Field {
    static F: OnceLock<Field> = OnceLock::new();
    F.get_or_init(|| {
        let mut mul = vec![[0u8; 256]; 256];
        for a in 0..256usize {
            for b in 0..256usize {
                mul[a][b] = gmul_slow(a as u8, b as u8);
            }
        }
        let mut inv = [0u8; 256];
        for a in 1..256usize {
            // inverse by exhaustive search in the product table
            inv[a] = (1..256usize).find(|&b| mul[a][b] == 1).unwrap() as u8;
        }
        let mut alpha_pow = [0u8; 255];
        let mut x = 1u8;
        for e in alpha_pow.iter_mut() {
            *e = x;
            x = gmul_slow(x, 2);
        }
        Field { mul, inv, alpha_pow }
    })
}

// ---- Rand, Deg, Tuple (RFC 6330 5.3.5.1, 5.3.5.2, 5.3.5.4)

fn rand(y: u32, i: u32, m: u32) -> u32 {
    let x0 = (y.wrapping_add(i) & 0xFF) as usize;
    let x1 = ((y >> 8).wrapping_add(i) & 0xFF) as usize;
    let x2 = ((y >> 16).wrapping_add(i) & 0xFF) as usize;
    let x3 = ((y >> 24).wrapping_add(i) & 0xFF) as usize;
    (V0[x0] ^ V1[x1] ^ V2[x2] ^ V3[x3]) % m
}

const F_DEG: [u32; 31] = [
    0, 5243, 529531, 704294, 791675, 844104, 879057, 904023, 922747, 937311, 948962, 958494, 966438, 973160, 978921, 983914, 988283, 992138, 995565,
    998631, 1001391, 1003887, 1006157, 1008229, 1010129, 1011876, 1013490, 1014983, 1016370, 1017662, 1048576,
];

fn deg(v: u32, w: u32) -> u32 {
    for (d, f) in F_DEG.iter().enumerate().skip(1) {
        if v < *f {
            return (d as u32).min(w - 2);
        }
    }
    unreachable!()
}

fn is_prime(n: u32) -> bool {
    if n < 2 {
        return false;
    }
    let mut i = 2;
    while i * i <= n {
        if n % i == 0 {
            return false;
        }
        i += 1;
    }
    true
}

#[derive(Clone, Copy, Debug)]
pub struct Params {
    pub k: u32,
    pub kp: u32,
    pub j: u32,
    pub s: u32,
    pub h: u32,
    pub w: u32,
    pub l: u32,
    pub p: u32,
    pub b: u32,
    pub p1: u32,
}

pub fn params(k: u32) -> Params {
    let &(kp, j, s, h, w) = T2.iter().find(|r| r.0 >= k).expect("K <= 56403");
    let l = kp + s + h;
    let p = l - w;
    let mut p1 = p;
    while !is_prime(p1) {
        p1 += 1;
    }
    Params { k, kp, j, s, h, w, l, p, b: w - s, p1 }
}

fn tuple(pr: &Params, x: u32) -> (u32, u32, u32, u32, u32, u32) {
    let mut a = 53591 + pr.j * 997;
    if a % 2 == 0 {
        a += 1;
    }
    let b = 10267 * (pr.j + 1);
    let y = (b as u64).wrapping_add((x as u64).wrapping_mul(a as u64)) as u32; // mod 2^32
    let v = rand(y, 0, 1 << 20);
    let d = deg(v, pr.w);
    let aa = 1 + rand(y, 1, pr.w - 1);
    let bb = rand(y, 2, pr.w);
    let d1 = if d < 4 { 2 + rand(x, 3, 2) } else { 2 };
    let a1 = 1 + rand(x, 4, pr.p1 - 1);
    let b1 = rand(x, 5, pr.p1);
    (d, aa, bb, d1, a1, b1)
}

/// LT row of internal symbol id x: each visited column toggled (sum semantics of Enc[])
pub fn lt_row(pr: &Params, x: u32) -> Vec<u8> {
    let mut r = vec![0u8; pr.l as usize];
    let (d, a, mut b, d1, a1, mut b1) = tuple(pr, x);
    r[b as usize] ^= 1;
    for _ in 1..d {
        b = (b + a) % pr.w;
        r[b as usize] ^= 1;
    }
    while b1 >= pr.p {
        b1 = (b1 + a1) % pr.p1;
    }
    r[(pr.w + b1) as usize] ^= 1;
    for _ in 1..d1 {
        b1 = (b1 + a1) % pr.p1;
        while b1 >= pr.p {
            b1 = (b1 + a1) % pr.p1;
        }
        r[(pr.w + b1) as usize] ^= 1;
    }
    r
}

/// The S LDPC rows and the H HDPC rows (5.3.3.3)
pub fn precode_rows(pr: &Params) -> Vec<Vec<u8>> {
    let f = field();
    let (s, h, w, l, p, b, kp) = (pr.s as usize, pr.h as usize, pr.w as usize, pr.l as usize, pr.p as usize, pr.b as usize, pr.kp as usize);
    let mut m = vec![vec![0u8; l]; s + h];
    for (i, row) in m.iter_mut().enumerate().take(s) {
        row[b + i] ^= 1;
    }
    for c in 0..b {
        let a = 1 + c / s;
        let mut r = c % s;
        m[r][c] ^= 1;
        r = (r + a) % s;
        m[r][c] ^= 1;
        r = (r + a) % s;
        m[r][c] ^= 1;
    }
    for i in 0..s {
        m[i][w + i % p] ^= 1;
        m[i][w + (i + 1) % p] ^= 1;
    }
    // G_HDPC = MT * GAMMA by the direct definition
    let n = kp + s;
    let mut mt = vec![vec![0u8; n]; h];
    for j in 0..n - 1 {
        let r6 = rand(j as u32 + 1, 6, h as u32) as usize;
        let r7 = rand(j as u32 + 1, 7, h as u32 - 1) as usize;
        mt[r6][j] = 1;
        mt[(r6 + r7 + 1) % h][j] = 1;
    }
    for (i, row) in mt.iter_mut().enumerate() {
        row[n - 1] = f.alpha_pow[i % 255];
    }
    for i in 0..h {
        // (MT * GAMMA)[i][c] = sum_{r >= c} MT[i][r] * alpha^(r - c)
        let nz: Vec<usize> = (0..n).filter(|&r| mt[i][r] != 0).collect();
        for c in 0..n {
            let mut acc = 0u8;
            for &r in nz.iter().filter(|&&r| r >= c) {
                acc ^= f.mul[mt[i][r] as usize][f.alpha_pow[(r - c) % 255] as usize];
            }
            m[s + i][c] = acc;
        }
        m[s + i][n + i] = 1;
    }
    m
}

/// Incremental row-echelon basis over GF(256).
#[derive(Clone)]
pub struct Basis {
    l: usize,
    rows: Vec<Option<Vec<u8>>>, // indexed by pivot column, normalised to pivot = 1
    pub rank: usize,
}

impl Basis {
    pub fn new(l: usize) -> Basis {
        Basis { l, rows: vec![None; l], rank: 0 }
    }
    /// returns true iff the row increased the rank
    pub fn insert(&mut self, mut row: Vec<u8>) -> bool {
        let f = field();
        for c in 0..self.l {
            let v = row[c];
            if v == 0 {
                continue;
            }
            match &self.rows[c] {
                Some(b) => {
                    let mrow = &f.mul[v as usize];
                    for j in c..self.l {
                        let x = b[j];
                        if x != 0 {
                            row[j] ^= mrow[x as usize];
                        }
                    }
                }
                None => {
                    let inv = f.inv[v as usize];
                    let mrow = &f.mul[inv as usize];
                    for x in row.iter_mut().skip(c) {
                        if *x != 0 {
                            *x = mrow[*x as usize];
                        }
                    }
                    self.rows[c] = Some(row);
                    self.rank += 1;
                    return true;
                }
            }
        }
        false
    }
    pub fn full(&self) -> bool {
        self.rank == self.l
    }
    /// A non-zero vector C with row . C = 0 for every row inserted so far (None if the rank is
    /// full): free columns take the values `free()` supplies (forced non-zero for the first one),
    /// pivot columns follow by back-substitution.
    pub fn kernel_vector(&self, free: &mut dyn FnMut() -> u8) -> Option<Vec<u8>> {
        if self.full() {
            return None;
        }
        let f = field();
        let mut c = vec![0u8; self.l];
        let mut first = true;
        for col in (0..self.l).rev() {
            match &self.rows[col] {
                None => {
                    let mut v = free();
                    if first && v == 0 {
                        v = 1;
                    }
                    first = false;
                    c[col] = v;
                }
                Some(row) => {
                    let mut acc = 0u8;
                    for j in col + 1..self.l {
                        if row[j] != 0 && c[j] != 0 {
                            acc ^= f.mul[row[j] as usize][c[j] as usize];
                        }
                    }
                    c[col] = acc;
                }
            }
        }
        Some(c)
    }
}

/// row . c over GF(256)
pub fn dot(row: &[u8], c: &[u8]) -> u8 {
    let f = field();
    let mut acc = 0u8;
    for (a, b) in row.iter().zip(c) {
        if *a != 0 && *b != 0 {
            acc ^= f.mul[*a as usize][*b as usize];
        }
    }
    acc
}

/// The source block (K symbols of T octets) whose intermediate symbols are the kernel vector `c`
/// scaled by a non-zero multiplier per octet position.
pub fn block_from_intermediate(pr: &Params, c: &[u8], mults: &[u8]) -> Vec<u8> {
    let mut out = Vec::with_capacity(pr.k as usize * mults.len());
    for i in 0..pr.k {
        let v = dot(&lt_row(pr, i), c);
        for m in mults {
            out.push(gmul_slow(*m, v));
        }
    }
    out
}

/// Basis holding the pre-code rows and the padding rows of a K-symbol block.
pub fn base_for(k: u32) -> (Params, Basis) {
    let pr = params(k);
    let mut b = Basis::new(pr.l as usize);
    for r in precode_rows(&pr) {
        b.insert(r);
    }
    for x in k..pr.kp {
        b.insert(lt_row(&pr, x));
    }
    (pr, b)
}

pub fn isi_of(pr: &Params, esi: u32) -> u32 {
    if esi < pr.k {
        esi
    } else {
        esi + (pr.kp - pr.k)
    }
}

/// rank == L for the set of received ESIs?
pub fn decodable(k: u32, esis: &[u32]) -> bool {
    let (pr, mut b) = base_for(k);
    for e in esis {
        b.insert(lt_row(&pr, isi_of(&pr, *e)));
        if b.full() {
            return true;
        }
    }
    b.full()
}

/// start-up self-check of the oracle (harness error if it fails): the encoder-side matrix
/// (all source symbols) is invertible, and the field is a field.
pub fn self_check() -> Result<(), String> {
    let f = field();
    for a in 1..256usize {
        if f.mul[a][f.inv[a] as usize] != 1 {
            return Err(format!("GF(256): {a} has no inverse"));
        }
    }
    if f.alpha_pow[8] != 0x1D {
        return Err("GF(256): alpha^8 != x^4+x^3+x^2+1".into());
    }
    for k in [10u32, 26, 101, 5, 33] {
        let all: Vec<u32> = (0..k).collect();
        if !decodable(k, &all) {
            return Err(format!("oracle: encoder-side matrix for K={k} is not invertible"));
        }
    }
    Ok(())
}

// ---- "twin" symbols: distinct internal symbol ids with identical tuples, hence identical LT rows.
// A received set that contains both members of t twin pairs has at least t redundant rows: an
// adversarial erasure pattern that makes rank-deficient-at->=K states common instead of ~0.5 %.

use std::collections::HashMap;
use std::sync::{Arc, Mutex};

/// pairs of internal symbol ids (both >= K') with equal Tuple[K', X]; computed once per K'
pub fn twin_pairs(kp: u32) -> Arc<Vec<(u32, u32)>> {
    static CACHE: OnceLock<Mutex<HashMap<u32, Arc<Vec<(u32, u32)>>>>> = OnceLock::new();
    let cache = CACHE.get_or_init(|| Mutex::new(HashMap::new()));
    if let Some(v) = cache.lock().unwrap().get(&kp) {
        return v.clone();
    }
    let pr = params(kp);
    let scan: u32 = if kp <= 150 { 300_000 } else if kp <= 420 { 1_000_000 } else { 0 };
    let mut seen: HashMap<(u32, u32, u32, u32, u32, u32), u32> = HashMap::with_capacity(scan as usize);
    let mut pairs = vec![];
    for x in kp..kp + scan {
        let t = tuple(&pr, x);
        match seen.get(&t) {
            Some(&first) => {
                if pairs.len() < 4000 {
                    pairs.push((first, x));
                }
            }
            None => {
                seen.insert(t, x);
            }
        }
    }
    let v = Arc::new(pairs);
    cache.lock().unwrap().insert(kp, v.clone());
    v
}

/// LT degree d of the encoding symbol with id `esi` of a K-symbol block (Deg[v] of RFC 6330 5.3.5.2)
pub fn lt_degree(pr: &Params, esi: u32) -> u32 {
    let isi = if esi < pr.k { esi } else { esi + (pr.kp - pr.k) };
    tuple(pr, isi).0
}

/// twin pairs as encoding symbol ids of a K-symbol block
pub fn twin_esis(k: u32, n: usize, pick: &mut dyn FnMut(usize) -> usize) -> Vec<(u32, u32)> {
    let pr = params(k);
    let pairs = twin_pairs(pr.kp);
    if pairs.is_empty() {
        return vec![];
    }
    let shift = pr.kp - k;
    let mut out = vec![];
    for _ in 0..n {
        let (a, b) = pairs[pick(pairs.len())];
        let (ea, eb) = (a - shift, b - shift);
        if ea >= k && eb >= k && eb < (1 << 24) && !out.contains(&(ea, eb)) {
            out.push((ea, eb));
        }
    }
    out
}

/// block sizes (table values K') in [lo, hi] whose code parameters sit on a 64-bit word boundary
/// (P, W or L a multiple of 64): the places where bit-packed matrix code changes its word count
pub fn boundary_ks(lo: u32, hi: u32) -> Vec<u32> {
    T2.iter()
        .filter(|r| r.0 >= lo && r.0 <= hi)
        .filter(|r| {
            let pr = params(r.0);
            pr.p % 64 == 0 || pr.w % 64 == 0 || pr.l % 64 == 0
        })
        .map(|r| r.0)
        .collect()
}
