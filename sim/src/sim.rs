//! The live simulator: seeded configuration, sender/receiver applications and a discrete-event
//! network with fault injection. It drives the executor (`net::Exec`) event by event and records
//! the resolved event list, which is the replay file.

use crate::net::*;
use crate::prng::Rng;
use crate::util::guarded;
use raptorq::{EncoderBuilder, ObjectTransmissionInformation};
use std::cmp::Reverse;
use std::collections::BinaryHeap;

#[derive(Clone, Copy, Debug, PartialEq, Eq)]
pub enum Profile {
    C01,
    C08,
    C18,
    C07,
}

pub struct SimOut {
    pub scenario: Scenario,
    pub exec: Option<Exec>,
    pub result: Result<(), Fail>,
    pub ticks: u64,
    pub faults: crate::util::Counters,
}

const T_LIST: [u16; 19] = [1, 2, 3, 4, 7, 8, 9, 15, 16, 17, 31, 32, 33, 63, 64, 65, 127, 128, 129];

fn divisors_al(t: u16, r: &mut Rng) -> u8 {
    let mut c: Vec<u8> = vec![1];
    for a in [2u16, 3, 4, 8, 16] {
        if t % a == 0 {
            c.push(a as u8);
        }
    }
    if t <= 255 {
        c.push(t as u8);
    }
    *r.pick(&c)
}

/// Draw a configuration shape. `max_k` bounds the symbols per block (cost control per profile).
pub fn gen_setup(r: &mut Rng, profile: Profile, max_k: u32) -> Setup {
    gen_setup_band(r, profile, max_k, None)
}

/// `band = Some(lo)`: one block of lo..=max_k symbols (forced block-size band)
pub fn gen_setup_band(r: &mut Rng, profile: Profile, max_k: u32, band: Option<u32>) -> Setup {
    // ---- symbols per block
    let k_target: u32 = match r.below(100) {
        0..=44 => r.range(1, 12) as u32,
        45..=87 => r.range(13, 60) as u32,
        88..=98 => r.range(61, 300) as u32,
        _ => r.range(301, 1200) as u32,
    }
    .min(max_k);
    // extra-large stream of C07 (release builds only): one big block, so that the U section of the
    // solver grows past one and two machine words on the dense back-end as well
    // C07 streams with a forced block-size band (one block): 121..180 for the checked builds,
    // 700..1300 and 3000..9000 for the release builds (selected by max_k)
    let band_lo: Option<u32> = if band.is_some() {
        band
    } else if profile != Profile::C07 {
        None
    } else if max_k >= 50000 {
        Some(20000)
    } else if max_k >= 5000 {
        Some(3000)
    } else if max_k >= 1000 {
        Some(700)
    } else if max_k == 180 {
        Some(121)
    } else {
        None
    };
    let xl = band_lo.is_some();
    let k_target = if let Some(lo) = band_lo {
        let special = crate::rank::boundary_ks(lo, max_k);
        if max_k == 56403 && r.chance(1, 4) {
            // the largest block the code supports, or one of the last sizes below it
            56403 - *r.pick(&[0u32, 0, 0, 1, 19, 20, 559, 560])
        } else if !special.is_empty() && r.chance(1, 4) {
            // a block size whose P, W or L is a multiple of 64
            *r.pick(&special)
        } else {
            r.range(lo as u64, max_k as u64) as u32
        }
    } else {
        k_target
    };
    let derived = r.chance(30, 100) && !xl;
    let mut with_defaults_mtu: Option<u16> = None;
    let mut oti: Option<Oti> = None;
    if derived {
        // parameters as the library derives them
        let mtu: u16 = *r.pick(&[4u16, 5, 8, 12, 16, 24, 63, 64, 65, 72, 100, 128, 256, 512, 1024, 1280]);
        let al = if mtu >= 64 { 8 } else { 1 };
        let t = (mtu - mtu % al) as u64;
        let kt = k_target as u64;
        let pad = match r.below(4) {
            0 => 0,
            1 => 1.min(t - 1),
            2 => t - 1,
            _ => r.below(t),
        };
        let f = (kt * t - pad).max(1);
        if r.chance(1, 5) && f <= 40_000 {
            // custom decoder memory budget through the builder: gives Z > 1 and N > 1
            let mem = (t * r.range(12, 40)).max(200);
            let got = guarded(|| {
                let mut b = EncoderBuilder::new();
                b.set_max_packet_size(mtu);
                b.set_decoder_memory_requirement(mem);
                b.build(&vec![0u8; f as usize]).get_config()
            });
            if let Ok(c) = got {
                if c.source_blocks() >= 1 && c.sub_blocks() >= 1 {
                    oti = Some(Oti { f, t: c.symbol_size(), z: c.source_blocks(), n: c.sub_blocks(), al: c.symbol_alignment() });
                }
            }
        }
        if oti.is_none() {
            if let Ok(c) = guarded(|| ObjectTransmissionInformation::with_defaults(f, mtu)) {
                oti = Some(Oti { f, t: c.symbol_size(), z: c.source_blocks(), n: c.sub_blocks(), al: c.symbol_alignment() });
                with_defaults_mtu = Some(mtu);
            }
        }
    }
    let oti = match oti {
        Some(o) => o,
        None => {
            let t: u16 = match r.below(1000) {
                _ if xl => *r.pick(&[1u16, 2, 4, 8]),
                0..=2 => 65535,
                3..=30 => 1280,
                _ => *r.pick(&T_LIST),
            };
            let k_target = if t > 1000 { k_target.min(40) } else if t > 64 { k_target.min(400) } else { k_target };
            let al = divisors_al(t, r);
            let n_max = (t / al as u16).max(1);
            let n: u16 = match r.below(4) {
                0 | 1 => 1,
                2 => r.range(1, n_max.min(8) as u64) as u16,
                _ => {
                    if n_max <= 64 {
                        n_max
                    } else {
                        r.range(1, 8) as u16
                    }
                }
            };
            let z: u64 = match r.below(100) {
                _ if xl => 1,
                0..=44 => 1,
                45..=79 => r.range(2, 4),
                80..=94 => r.range(5, 20),
                _ => r.range(21, 255),
            };
            // cost control: bound the total number of symbols (and bytes) of one object
            let z = if k_target > 150 { z.min(2) } else { z };
            let k_target = if z > 20 { k_target.min(6) } else if z > 4 { k_target.min(40) } else { k_target } as u64;
            let z = z.min((700 / k_target.max(1)).max(1));
            let k_target = if let Some(lo) = band_lo { k_target.max(lo as u64) } else { k_target };
            let (t, al, n) = if z * k_target * t as u64 > 300_000 && !r.chance(1, 50) {
                let t = *r.pick(&T_LIST);
                let al = divisors_al(t, r);
                (t, al, 1u16.max(n.min(t / al as u16)))
            } else {
                (t, al, n)
            };
            let extra = if z > 1 && r.chance(2, 3) { r.below(z) } else { 0 };
            let kt = (z * k_target + extra).max(z);
            let t64 = t as u64;
            let pad = match r.below(4) {
                0 => 0,
                1 => 1.min(t64 - 1),
                2 => t64 - 1,
                _ => r.below(t64),
            };
            let f = (kt * t64 - pad).max(1);
            // Z must not exceed the number of symbols
            let kt_real = f.div_ceil(t64);
            let z = z.min(kt_real).max(1);
            Oti { f, t, z: z as u8, n, al }
        }
    };
    let data = match r.below(12) {
        0 => DataSpec::Zero,
        1 => DataSpec::Ff,
        2 => DataSpec::Count,
        3 => DataSpec::Sparse { seed: r.next_u64() },
        4 => DataSpec::Repeat { seed: r.next_u64() },
        _ => DataSpec::Seeded { seed: r.next_u64() },
    };
    // ---- sender replicas
    let nrep = match profile {
        Profile::C18 => r.urange(2, 3),
        _ => r.urange(1, 3),
    };
    let mut replicas = vec![];
    for i in 0..nrep {
        let c = match r.below(100) {
            0..=24 => Ctor::New,
            25..=36 => Ctor::Plan,
            37..=48 => Ctor::PlanShared,
            49..=74 => {
                if let (Some(mtu), true) = (with_defaults_mtu, r.chance(1, 2)) {
                    Ctor::WithDefaults { mtu }
                } else {
                    Ctor::EncoderNew
                }
            }
            _ => Ctor::Unplanned { threshold: *r.pick(&[0u32, 250, 100_000]) },
        };
        // make sure a burst-capable replica exists in some runs
        let c = if i == 0 && r.chance(1, 4) { Ctor::EncoderNew } else { c };
        replicas.push(c);
    }
    // ---- receivers
    let nrx = match profile {
        Profile::C18 => r.urange(1, 2),
        Profile::C07 => r.urange(1, 3),
        _ => r.urange(1, 4),
    };
    let mut receivers = vec![];
    let total_syms = oti.f.div_ceil(oti.t as u64);
    let nrx = nrx.min((900 / total_syms.max(1)).max(1) as usize);
    for _ in 0..nrx {
        let kind = *r.pick(&[RxKind::Decode, RxKind::Add, RxKind::Block, RxKind::Block, RxKind::Mixed]);
        let threshold = match r.below(4) {
            0 | 1 => None,
            2 => Some(0),
            _ => Some(100_000),
        };
        let mirror_p = if profile == Profile::C08 { 60 } else { 25 };
        let mirror = if r.chance(mirror_p, 100) {
            let others: Vec<RxKind> = [RxKind::Decode, RxKind::Add, RxKind::Block, RxKind::Mixed].into_iter().filter(|k| *k != kind).collect();
            Some(*r.pick(&others))
        } else {
            None
        };
        receivers.push(RxSpec { kind, threshold, mirror });
    }
    let block_share = if band_lo.unwrap_or(0) >= 20000 { 3 } else { 2 };
    if band_lo.is_some() && !receivers.is_empty() && r.chance(block_share, 4) {
        // large single blocks: a block-level receiver (the only interface with real batches)
        receivers[0].kind = RxKind::Block;
    }
    let kernel = if profile == Profile::C07 {
        Kernel::Auto
    } else {
        // swarm: most runs on the host's own kernel, some on each forced level the CPU supports
        let c = [Kernel::Auto, Kernel::Auto, Kernel::Auto, Kernel::Portable, Kernel::Ssse3, Kernel::Avx2, Kernel::Avx512];
        let k = *r.pick(&c);
        if kernel_supported(k) {
            k
        } else {
            Kernel::Auto
        }
    };
    Setup { oti, data, replicas, receivers, kernel, warm: vec![], fresh_check: false }
}

struct Link {
    drop_iid: f64,
    /// Gilbert-Elliott: (p good->bad, p bad->good, loss in bad state)
    ge: Option<(f64, f64, f64)>,
    bad: bool,
    partitions: Vec<(u64, u64)>,
    dup: f64,
    base: u64,
    jitter: u64,
    stalls: Vec<(u64, u64)>,
    pending: Vec<Frame>,
    max_send_index: u64,
    late_join_pending: bool,
}

struct Sim {
    r: Rng,
    ex: Exec,
    events: Vec<Event>,
    heap: BinaryHeap<Reverse<(u64, u64, usize, u64)>>, // (arrival tick, seq, rx, frame id)
    frames: Vec<(Frame, u64)>,                        // frame id -> (frame, send index)
    links: Vec<Link>,
    now: u64,
    seq: u64,
    send_index: u64,
    faults_on: bool,
    faults: crate::util::Counters,
    profile: Profile,
    p_snapshot: u64,
    p_check: u64,
    p_poke: u64,
    budget_events: usize,
    /// Some(n): the transfer opens with a flood of n repair packets that block-level receivers
    /// take as one batch (a matrix of more than 2^16 rows)
    mega: Option<u32>,
}

impl Sim {
    fn emit(&mut self, ev: Event) -> Result<(), Fail> {
        let r = self.ex.apply(&ev);
        self.events.push(ev);
        r
    }

    fn in_window(ws: &[(u64, u64)], t: u64) -> Option<u64> {
        ws.iter().find(|(a, b)| *a <= t && t < *b).map(|w| w.1)
    }

    /// put one frame on the wire towards every receiver
    fn send(&mut self, fr: Frame) -> Result<(), Fail> {
        self.now += 1;
        self.send_index += 1;
        let id = self.frames.len() as u64;
        self.frames.push((fr, self.send_index));
        for rx in 0..self.links.len() {
            let mut copies = 1usize;
            if self.faults_on {
                let l = &mut self.links[rx];
                if Self::in_window(&l.partitions, self.now).is_some() {
                    self.faults.inc("partition_drop");
                    continue;
                }
                if let Some((gb, bg, loss)) = l.ge {
                    let flip = self.r.f64();
                    if l.bad {
                        if flip < bg {
                            l.bad = false;
                        }
                    } else if flip < gb {
                        l.bad = true;
                    }
                    if l.bad && self.r.f64() < loss {
                        self.faults.inc("drop_burst");
                        continue;
                    }
                }
                if self.r.f64() < l.drop_iid {
                    self.faults.inc("drop_iid");
                    continue;
                }
                let mut d = l.dup;
                while d > 0.0 && self.r.f64() < d.min(1.0) {
                    copies += 1;
                    self.faults.inc("duplicate");
                    d -= 1.0;
                }
            }
            for _ in 0..copies {
                let l = &self.links[rx];
                let lat = if self.faults_on { l.base + if l.jitter > 0 { self.r.below(l.jitter + 1) } else { 0 } } else { 1 };
                self.seq += 1;
                self.heap.push(Reverse((self.now + lat, self.seq, rx, id)));
            }
        }
        self.flush_until(self.now)
    }

    fn release_pending(&mut self, t: u64) -> Result<(), Fail> {
        for rx in 0..self.links.len() {
            if !self.links[rx].pending.is_empty() && (Self::in_window(&self.links[rx].stalls, t).is_none() || !self.faults_on) {
                let batch = std::mem::take(&mut self.links[rx].pending);
                self.deliver(rx, batch)?;
            }
        }
        Ok(())
    }

    fn deliver(&mut self, rx: usize, batch: Vec<Frame>) -> Result<(), Fail> {
        if self.events.len() > self.budget_events {
            return Ok(());
        }
        if self.links[rx].late_join_pending {
            self.links[rx].late_join_pending = false;
            self.faults.inc("late_join");
        }
        let mut batch = batch;
        if self.faults_on && batch.len() >= 2 && self.r.chance(1, 12) {
            // the same frame twice inside one batch
            let f = batch[self.r.usize_below(batch.len())];
            let at = self.r.usize_below(batch.len() + 1);
            batch.insert(at, f);
            self.faults.inc("duplicate_within_batch");
        }
        let was_done = self.ex.rx_done(rx);
        let completing = batch.clone();
        self.emit(Event::Deliver { rx, batch })?;
        if self.faults_on && !was_done && self.ex.rx_done(rx) && self.r.chance(1, 3) {
            // the delivery that completed the object arrives once more
            self.faults.inc("duplicate_of_completing_delivery");
            self.emit(Event::Deliver { rx, batch: completing })?;
        }
        // receiver application actions between deliveries
        if self.faults_on || self.profile == Profile::C08 {
            if self.p_snapshot > 0 && self.r.chance(self.p_snapshot, 1000) {
                if self.ex.rx_has_snapshot(rx) && self.r.chance(1, 2) {
                    self.emit(Event::Rollback { rx })?;
                } else {
                    self.emit(Event::Snapshot { rx })?;
                }
            }
            if self.p_check > 0 && self.r.chance(self.p_check, 1000) {
                self.emit(Event::Check { rx })?;
            }
            if self.p_poke > 0 && self.r.chance(self.p_poke, 1000) {
                let sbn = self.r.usize_below(self.ex.nblocks()) as u8;
                self.emit(Event::Poke { rx, sbn })?;
            }
        }
        Ok(())
    }

    fn flush_until(&mut self, t: u64) -> Result<(), Fail> {
        while let Some(Reverse((at, _, _, _))) = self.heap.peek().copied() {
            if at > t {
                break;
            }
            let Reverse((at, _, rx, id)) = self.heap.pop().unwrap();
            self.release_pending(at)?;
            let (fr, sidx) = self.frames[id as usize];
            if sidx < self.links[rx].max_send_index {
                self.faults.inc("reorder");
            } else {
                self.links[rx].max_send_index = sidx;
            }
            if self.faults_on && Self::in_window(&self.links[rx].stalls, at).is_some() {
                self.links[rx].pending.push(fr);
                self.faults.inc("stalled_arrival");
            } else {
                self.deliver(rx, vec![fr])?;
            }
        }
        self.release_pending(t)
    }

    fn drain(&mut self) -> Result<(), Fail> {
        let far = self.now + 1_000_000;
        // jump the clock: nothing else is runnable, so time advances to the next event
        while let Some(Reverse((at, _, _, _))) = self.heap.peek().copied() {
            self.now = self.now.max(at);
            self.flush_until(at)?;
        }
        // end of every stall
        let end = self.links.iter().flat_map(|l| l.stalls.iter().map(|s| s.1)).filter(|e| *e < u64::MAX / 8).max().unwrap_or(0);
        self.now = self.now.max(end.min(far));
        let was = self.faults_on;
        self.faults_on = false;
        let r = self.release_pending(self.now);
        self.faults_on = was;
        r
    }
}

/// a receiver application that buffers everything and hands it to the decoder in one go at the end
/// (stalled for the whole transfer), behind a link that loses little: the decoder's first attempt
/// sees far more than K symbols
fn buffering_link(r: &mut Rng) -> Link {
    let drop_iid = match r.below(3) {
        0 => 0.0005 * r.f64(),
        1 => 0.002 * r.f64(),
        _ => 0.05 * r.f64(),
    };
    Link {
        drop_iid,
        ge: None,
        bad: false,
        partitions: vec![],
        dup: if r.chance(1, 3) { 0.2 * r.f64() } else { 0.0 },
        base: 1,
        jitter: if r.chance(1, 2) { r.below(20) } else { 0 },
        stalls: vec![(0, u64::MAX / 4)],
        pending: vec![],
        max_send_index: 0,
        late_join_pending: false,
    }
}

fn gen_link(r: &mut Rng, profile: Profile, horizon: u64) -> Link {
    if r.chance(1, 12) {
        return buffering_link(r);
    }
    let on = |r: &mut Rng| r.chance(1, 2);
    let heavy = r.chance(1, 12);
    let drop_iid = if on(r) { if heavy { 0.6 + 0.35 * r.f64() } else { 0.4 * r.f64() } } else { 0.0 };
    let ge = if on(r) { Some((0.02 + 0.1 * r.f64(), 0.1 + 0.4 * r.f64(), 0.5 + 0.5 * r.f64())) } else { None };
    let mut partitions = vec![];
    let mut late = false;
    if r.chance(1, 3) {
        let a = r.below(horizon.max(2));
        let len = 1 + r.below((horizon / 3).max(2));
        partitions.push((a, a + len));
    }
    if r.chance(1, 6) {
        // late joiner: deaf for the first part of the transfer
        partitions.push((0, 1 + r.below((horizon / 2).max(2))));
        late = true;
    }
    let dup = if on(r) {
        match profile {
            Profile::C08 => 3.0 * r.f64(),
            _ => 0.5 * r.f64(),
        }
    } else {
        0.0
    };
    let jitter = if on(r) { r.below(40) } else { 0 };
    let mut stalls = vec![];
    if on(r) {
        for _ in 0..r.urange(1, 3) {
            let a = r.below(horizon.max(2));
            // mostly short stalls; sometimes a long one, so that a whole burst arrives as one batch
            let len = if r.chance(1, 5) { 2 + r.below(horizon.max(2)) } else { 2 + r.below(30) };
            stalls.push((a, a + len));
        }
    }
    Link { drop_iid, ge, bad: false, partitions, dup, base: 1 + r.below(3), jitter, stalls, pending: vec![], max_send_index: 0, late_join_pending: late }
}

/// one block of lo..=hi symbols, otherwise as `simulate`
pub fn simulate_band(seed: u64, profile: Profile, oracles: Oracles, transcript: bool, lo: u32, hi: u32) -> SimOut {
    let mut r = Rng::new(seed);
    let setup = gen_setup_band(&mut r, profile, hi, Some(lo));
    simulate_setup(r, setup, profile, oracles, transcript)
}

pub fn simulate(seed: u64, profile: Profile, oracles: Oracles, transcript: bool, max_k: u32) -> SimOut {
    let mut r = Rng::new(seed);
    let setup = gen_setup(&mut r, profile, max_k);
    simulate_setup(r, setup, profile, oracles, transcript)
}

/// One small block (4..40 symbols, or 250..300) whose transfer opens with a flood of about 2^16
/// repair packets: a hoarding block-level receiver hands all of them to its decoder at once, which
/// then solves a system of more than 65 536 rows (row indices that no longer fit 16 bits).
pub fn simulate_mega(seed: u64, profile: Profile, oracles: Oracles, transcript: bool) -> SimOut {
    let mut r = Rng::new(seed);
    let (lo, hi) = if r.chance(1, 4) { (250, 300) } else { (4, 40) };
    let mut setup = gen_setup_band(&mut r, profile, hi, Some(lo));
    setup.receivers.truncate(2);
    setup.receivers[0].kind = RxKind::Block;
    let n = 65_400 + r.below(800) as u32;
    simulate_setup_mega(r, setup, profile, oracles, transcript, Some(n))
}

/// "Thread history" sessions of C18: before the transfer the sender thread serves blocks of related
/// sizes (same J, or same S and H, or the neighbouring table rows, or anything) at the internal
/// symbol ids the transfer is about to use; at the end a sample of the ledger is re-requested from a
/// fresh thread. A per-thread (or per-process) memo keyed by less than the full (K', ISI) shows up
/// as a history-dependent packet.
pub fn simulate_history(seed: u64, profile: Profile, oracles: Oracles, transcript: bool) -> SimOut {
    use crate::tables::T2;
    let mut r = Rng::new(seed);
    let rows: Vec<(u32, u32, u32, u32, u32)> = T2.iter().copied().filter(|x| x.0 <= 1300).collect();
    // main block size: mostly one that has a relative sharing J among the small rows
    let (main, relatives): ((u32, u32, u32, u32, u32), Vec<u32>) = loop {
        let m = *r.pick(&rows);
        if m.0 > 420 {
            continue;
        }
        let rel: Vec<u32> = match r.below(4) {
            0 | 1 => rows.iter().filter(|x| x.1 == m.1 && x.0 != m.0).map(|x| x.0).collect(),
            2 => rows.iter().filter(|x| x.2 == m.2 && x.3 == m.3 && x.0 != m.0).map(|x| x.0).collect(),
            _ => {
                let i = rows.iter().position(|x| x.0 == m.0).unwrap();
                let mut v = vec![];
                if i > 0 {
                    v.push(rows[i - 1].0);
                }
                if i + 1 < rows.len() {
                    v.push(rows[i + 1].0);
                }
                v
            }
        };
        if !rel.is_empty() {
            break (m, rel);
        }
    };
    let kp = main.0;
    let mut setup = gen_setup_band(&mut r, profile, kp, Some(kp));
    let mut warm = vec![];
    for _ in 0..r.urange(1, 3) {
        let k = *r.pick(&relatives);
        // the relative's own construction touches the ids below its K'; its windows are placed on
        // the ids the transfer will use first (right after the main block's K')
        let s = kp.saturating_sub(k);
        warm.push(Warm { k, s, n: 64 });
        if r.chance(1, 2) {
            warm.push(Warm { k, s: 0, n: r.range(1, 64) as u32 });
        }
    }
    if r.chance(1, 8) {
        // ... and one request that the library rejects with a panic (survived by the thread)
        let at = r.usize_below(warm.len() + 1);
        warm.insert(at, Warm { k: 56404 + r.below(3) as u32 * 4000, s: 0, n: 0 });
    }
    setup.warm = warm;
    setup.fresh_check = true;
    simulate_setup(r, setup, profile, oracles, transcript)
}

pub fn simulate_setup(r: Rng, setup: Setup, profile: Profile, oracles: Oracles, transcript: bool) -> SimOut {
    simulate_setup_mega(r, setup, profile, oracles, transcript, None)
}

fn simulate_setup_mega(mut r: Rng, setup: Setup, profile: Profile, oracles: Oracles, transcript: bool, mega: Option<u32>) -> SimOut {
    let ex = match Exec::new(&setup, oracles, transcript, false) {
        Ok(e) => e,
        Err(f) => {
            return SimOut { scenario: Scenario { setup, events: vec![] }, exec: None, result: Err(f), ticks: 0, faults: Default::default() }
        }
    };
    let ks = ex.ks.clone();
    let total_syms: u64 = ks.iter().map(|k| *k as u64).sum();
    let horizon = (total_syms * 2).max(20);
    let mut links: Vec<Link> = (0..ex.nrx()).map(|_| gen_link(&mut r, profile, horizon)).collect();
    if ks.len() == 1 && ks[0] >= 700 && setup.receivers[0].kind == RxKind::Block && (ks[0] >= 20000 || r.chance(2, 3)) {
        // ... that buffers the whole transfer behind a link that loses little, so that its first
        // attempt holds surplus symbols (and, with enough of them, takes the GF(2)-only path)
        links[0] = buffering_link(&mut r);
    }
    // moderate floods: a small single block whose transfer opens with 6..24 x (K + 30) repair
    // packets handed over in one batch (far more rows than the solver's usual few surplus ones)
    let moderate = mega.is_none() && profile != Profile::C18 && ks.len() == 1 && ks[0] <= 60 && r.chance(1, 30);
    let mega = if moderate { Some((ks[0] + 30) * r.range(6, 24) as u32) } else { mega };
    let (p_snapshot, p_check, p_poke) = match profile {
        Profile::C08 => (25, 40, 25),
        Profile::C01 => (10, 0, 5),
        Profile::C07 => (5, 0, 5),
        Profile::C18 => (0, 0, 0),
    };
    let mut s = Sim {
        r,
        ex,
        events: vec![],
        heap: BinaryHeap::new(),
        frames: vec![],
        links,
        now: 0,
        seq: 0,
        send_index: 0,
        faults_on: true,
        faults: Default::default(),
        profile,
        p_snapshot,
        p_check,
        p_poke,
        budget_events: 60_000,
        mega,
    };
    if matches!(profile, Profile::C01 | Profile::C08) {
        s.faults.touch("hoarded_flood_over_65536_rows");
    }
    if profile != Profile::C18 {
        s.faults.touch("moderate_flood_in_one_batch");
    }
    for k in ["drop_iid", "drop_burst", "partition_drop", "duplicate", "reorder", "stalled_arrival", "late_join"] {
        s.faults.touch(k);
    }
    s.faults.touch("twin_symbols_sent");
    s.faults.add("receiver_buffers_whole_transfer", s.links.iter().filter(|l| l.stalls.first().map(|w| w.1 > u64::MAX / 8).unwrap_or(false)).count() as u64);
    s.faults.touch("duplicate_within_batch");
    s.faults.touch("duplicate_of_completing_delivery");
    let result = run_phases(&mut s, &ks);
    let ticks = s.now;
    let Sim { ex, events, faults, .. } = s;
    SimOut { scenario: Scenario { setup, events }, exec: Some(ex), result, ticks, faults }
}

fn pick_window(r: &mut Rng, k: u32, prev_end: &mut u32, earlier: &mut Vec<(u32, u32)>, want: u32) -> (u32, u32) {
    let room = (1u32 << 24) - k; // number of repair ids
    let n = want.clamp(1, 64).min(room);
    let s = match r.below(11) {
        10 => {
            // repair ids that agree with small ids modulo 2^16 (m * 65536 + a small id): what a
            // 16-bit truncation somewhere would confuse with the source symbols of a block
            let m = 1 + r.below(255) as u32;
            (m * 65536 + r.below(k as u64 + 4) as u32).saturating_sub(k)
        }
        0..=3 => *prev_end,
        4 => 0,
        5 | 6 if !earlier.is_empty() => {
            // overlap an earlier window
            let (ps, pn) = *r.pick(earlier);
            ps + r.below(pn as u64) as u32
        }
        7 | 8 => r.below((room - n) as u64 + 1) as u32,
        _ => room - n - r.below(3.min((room - n) as u64 + 1)) as u32, // the very last ids
    };
    let s = s.min(room - n);
    *prev_end = (s + n).min(room - 1);
    earlier.push((s, n));
    (s, n)
}

fn run_phases(s: &mut Sim, ks: &[u32]) -> Result<(), Fail> {
    let nb = ks.len();
    let nrep = s.ex.nreplicas();
    // a receiver application that clones its (still empty) decoder before the first packet
    if s.p_snapshot > 0 {
        for rx in 0..s.ex.nrx() {
            if s.r.chance(1, 10) {
                s.emit(Event::Snapshot { rx })?;
                s.faults.inc("snapshot_before_first_packet");
            }
        }
    }
    if let Some(n) = s.mega {
        // ---------------- a flood first: all but a few source packets and ~2^16 repair packets,
        // handed to every receiver as one batch
        let k = ks[0];
        let rep = s.r.usize_below(nrep);
        let room = (1u32 << 24) - k;
        let start = match s.r.below(3) {
            0 => 0,
            1 => s.r.below((room - n) as u64) as u32,
            _ => room - n,
        };
        s.emit(Event::Source { replica: rep, sbn: 0 })?;
        s.emit(Event::Window { replica: rep, sbn: 0, s: start, n })?;
        let withheld = 1 + s.r.below(k.min(4) as u64) as u32;
        let mut batch: Vec<Frame> = (withheld..k).map(|e| Frame { replica: rep, sbn: 0, esi: e }).collect();
        batch.extend((0..n).map(|i| Frame { replica: rep, sbn: 0, esi: k + start + i }));
        if s.r.chance(1, 2) {
            s.r.shuffle(&mut batch);
        }
        s.now += n as u64;
        for rx in 0..s.ex.nrx() {
            s.deliver(rx, batch.clone())?;
        }
        s.faults.inc(if n > 60_000 { "hoarded_flood_over_65536_rows" } else { "moderate_flood_in_one_batch" });
    }
    let skip_to_final = s.mega.is_some();
    if !skip_to_final {
    // ---------------- phase A: opening burst of source packets
    let mut opening: Vec<Frame> = vec![];
    let burst_rep = (0..nrep).find(|i| s.ex.replica_has_encoder(*i));
    let sum_k: u64 = ks.iter().map(|k| *k as u64).sum();
    if let (Some(rep), true) = (burst_rep, s.r.chance(1, 2) && sum_k <= 3000) {
        let rr = s.r.below(4) as u32;
        s.emit(Event::Burst { replica: rep, r: rr })?;
        for (b, k) in ks.iter().enumerate() {
            for e in 0..(*k + rr) {
                opening.push(Frame { replica: rep, sbn: b as u8, esi: e });
            }
        }
    } else {
        let order_mode = s.r.below(3);
        let mut per_block: Vec<Vec<Frame>> = vec![];
        for b in 0..nb {
            let rep = s.r.usize_below(nrep);
            s.emit(Event::Source { replica: rep, sbn: b as u8 })?;
            per_block.push((0..ks[b]).map(|e| Frame { replica: rep, sbn: b as u8, esi: e }).collect());
        }
        match order_mode {
            0 => opening = per_block.into_iter().flatten().collect(),
            1 => {
                // round-robin across blocks
                let maxk = per_block.iter().map(|v| v.len()).max().unwrap_or(0);
                for i in 0..maxk {
                    for v in &per_block {
                        if i < v.len() {
                            opening.push(v[i]);
                        }
                    }
                }
            }
            _ => {
                opening = per_block.into_iter().flatten().collect();
                s.r.shuffle(&mut opening);
            }
        }
    }
    // a few runs transmit repair symbols only
    let repair_only = s.r.chance(1, 10);
    if !repair_only {
        for f in opening.iter().copied() {
            s.send(f)?;
        }
    }
    // ---------------- phase B: repair rounds driven by receiver feedback
    let rounds = match s.profile {
        Profile::C18 => s.r.urange(3, 8),
        _ => s.r.urange(2, 6),
    };
    let mut prev_end = vec![0u32; nb];
    let mut earlier: Vec<Vec<(u32, u32)>> = vec![vec![]; nb];
    for _round in 0..rounds {
        s.flush_until(s.now)?;
        let mut any = false;
        for b in 0..nb {
            let missing_rx = (0..s.ex.nrx()).filter(|rx| !s.ex.rx_block_done(*rx, b)).count();
            let force = s.profile == Profile::C18 && s.r.chance(1, 2);
            if missing_rx == 0 && !force {
                continue;
            }
            any = true;
            let rep = s.r.usize_below(nrep);
            let worst = (0..s.ex.nrx()).map(|rx| ks[b] as i64 - s.ex.rx_block_have(rx, b) as i64).max().unwrap_or(0).max(0) as u32;
            let want = if repair_only { ks[b] + s.r.below(4) as u32 } else { worst + s.r.below(4) as u32 };
            let (ws, wn) = pick_window(&mut s.r, ks[b], &mut prev_end[b], &mut earlier[b], want.max(1));
            s.emit(Event::Window { replica: rep, sbn: b as u8, s: ws, n: wn })?;
            for i in 0..wn {
                s.send(Frame { replica: rep, sbn: b as u8, esi: ks[b] + ws + i })?;
            }
            if ks[b] <= 420 && s.r.chance(if ks[b] >= 200 { 3 } else { 1 }, 6) {
                // adversarial redundancy: single-packet requests for both members of a few "twin"
                // pairs (repair symbols with identical LT rows), so that receivers hold >= K symbols
                // of deficient rank far more often than chance alone would give
                let n = s.r.urange(1, 3);
                let rr = &mut s.r;
                let pairs = crate::rank::twin_esis(ks[b], n, &mut |m| rr.usize_below(m));
                for (a, bb) in pairs {
                    for e in [a, bb] {
                        s.emit(Event::Window { replica: rep, sbn: b as u8, s: e - ks[b], n: 1 })?;
                        s.send(Frame { replica: rep, sbn: b as u8, esi: e })?;
                    }
                    s.faults.inc("twin_symbols_sent");
                }
            }
            if s.profile == Profile::C18 && s.r.chance(1, 60) {
                // an empty window is a legal request
                let start = s.r.below(1000) as u32;
                s.emit(Event::Window { replica: rep, sbn: b as u8, s: start, n: 0 })?;
            }
            // a sender that pre-computes a very large window (bulk generation) and transmits only
            // its head: the window itself is checked, a few of its packets go on the wire
            if s.profile == Profile::C18 && ks[b] <= 64 && s.r.chance(1, 40) {
                let big = *s.r.pick(&[1000u32, 4095, 4096, 4097, 5000, 8192]);
                let room = (1u32 << 24) - ks[b];
                let start = match s.r.below(6) {
                    0 => 0,
                    1 => 1 + s.r.below(2000) as u32,
                    2 => s.r.below((room - big) as u64) as u32,
                    3 | 4 => {
                        // straddling a multiple of 2^16 of the encoding symbol id
                        let m = 1 + s.r.below(254) as u32;
                        (m * 65536).saturating_sub(ks[b]).saturating_sub(s.r.below(big as u64) as u32).min(room - big)
                    }
                    _ => room - big,
                };
                s.emit(Event::Window { replica: rep, sbn: b as u8, s: start, n: big })?;
                for i in 0..3.min(big) {
                    s.send(Frame { replica: rep, sbn: b as u8, esi: ks[b] + start + i })?;
                }
            }
        }
        if !any {
            break;
        }
        // let time pass between rounds
        s.now += s.r.below(20);
        s.flush_until(s.now)?;
    }
    s.drain()?;
    // ---------------- phase C: continuation after completion (re-deliveries, fresh repair)
    let cont_p = if s.profile == Profile::C08 { 70 } else { 30 };
    if s.r.chance(cont_p, 100) && !s.frames.is_empty() {
        let n = s.r.urange(1, 12);
        for _ in 0..n {
            if s.r.chance(2, 3) {
                let (fr, _) = s.frames[s.r.usize_below(s.frames.len())];
                s.send(fr)?;
            } else {
                let b = s.r.usize_below(nb);
                let rep = s.r.usize_below(nrep);
                let (ws, wn) = pick_window(&mut s.r, ks[b], &mut prev_end[b], &mut earlier[b], 1);
                s.emit(Event::Window { replica: rep, sbn: b as u8, s: ws, n: wn })?;
                for i in 0..wn {
                    s.send(Frame { replica: rep, sbn: b as u8, esi: ks[b] + ws + i })?;
                }
            }
        }
        s.drain()?;
    }
    if s.profile == Profile::C08 {
        for rx in 0..s.ex.nrx() {
            s.emit(Event::Check { rx })?;
        }
    }
    }
    // ---------------- final phase: faults off, every source packet retransmitted in order
    s.faults_on = false;
    let rep = s.r.usize_below(nrep);
    for b in 0..nb {
        s.emit(Event::Source { replica: rep, sbn: b as u8 })?;
        if ks[b] > 24 {
            // large blocks: the retransmission reaches every receiver as one in-order batch
            s.now += ks[b] as u64;
            let batch: Vec<Frame> = (0..ks[b]).map(|e| Frame { replica: rep, sbn: b as u8, esi: e }).collect();
            for rx in 0..s.ex.nrx() {
                s.deliver(rx, batch.clone())?;
            }
        } else {
            for e in 0..ks[b] {
                s.send(Frame { replica: rep, sbn: b as u8, esi: e })?;
            }
        }
    }
    s.drain()?;
    s.emit(Event::Final)?;
    if s.profile == Profile::C08 {
        for rx in 0..s.ex.nrx() {
            s.emit(Event::Check { rx })?;
            let sbn = s.r.usize_below(nb) as u8;
            s.emit(Event::Poke { rx, sbn })?;
        }
    }
    Ok(())
}
