//! developer aid
use raptorq::{EncodingPacket, ObjectTransmissionInformation, SourceBlockDecoder, SourceBlockEncoder};
pub fn bigk(k: usize, t: usize, nrep: u32) {
    let data: Vec<u8> = (0..k * t).map(|i| (i % 251) as u8).collect();
    let cfg = ObjectTransmissionInformation::new((k * t) as u64, t as u16, 1, 1, 1);
    let enc = SourceBlockEncoder::new(0, &cfg, &data);
    let src = enc.source_packets();
    let mut batch: Vec<EncodingPacket> = src.iter().enumerate().filter(|(e, _)| e % 300 != 7).map(|(_, p)| p.clone()).collect();
    for i in 0..nrep {
        batch.push(enc.repair_packets(5 + i, 1).remove(0));
    }
    let mut dec = SourceBlockDecoder::new(0, &cfg, (k * t) as u64);
    let r = dec.decode(batch.clone());
    println!("batch: {:?}", r.map(|r| (r == data, r.iter().zip(data.iter()).position(|(a, b)| a != b))));
}
