//! C16 — dense and sparse binary matrices against a plain bit-array reference model, over generated
//! operation histories (sequential conformance; the searched dimension is the history).

use crate::prng::{run_seed, Digest, Rng};
use crate::report::{self, ddmin, Evidence, Violation};
use crate::util::{guarded, panic_class, par_fold, Counters, Ctx, HashSet64};
use raptorq::{BinaryMatrix, DenseBinaryMatrix, Octet, SparseBinaryMatrix};
use serde::{Deserialize, Serialize};
use serde_json::json;

#[derive(Clone, Debug, Serialize, Deserialize, PartialEq)]
#[serde(tag = "op", rename_all = "snake_case")]
pub enum Op {
    Set { i: usize, j: usize, v: bool },
    Enable,
    Disable,
    SwapRows { i: usize, j: usize },
    SwapCols { i: usize, j: usize, hint: usize },
    CountOnes { row: usize, a: usize, b: usize },
    RowIter { row: usize, a: usize, b: usize },
    OnesInCol { col: usize, a: usize, b: usize },
    Freeze,
    /// start_col = first dense column if `from_u`, else 0
    AddRows { dest: usize, src: usize, from_u: bool },
    /// start = None: first dense column (admissible on both back-ends); Some(c): any column
    /// (dense back-end only: the sparse one documents start_col == first dense column)
    NzCols {
        row: usize,
        #[serde(default)]
        start: Option<usize>,
    },
    SubRow {
        row: usize,
        #[serde(default)]
        start: Option<usize>,
    },
    Get { i: usize, j: usize },
    Resize { nh: usize, nw: usize },
    Sweep,
}

#[derive(Clone, Debug, Serialize, Deserialize, PartialEq)]
pub struct History {
    pub h: usize,
    pub w: usize,
    pub hint: usize,
    pub ops: Vec<Op>,
}

#[derive(Clone, Copy, PartialEq, Debug)]
enum C {
    Z,
    O,
    U,
}

struct Model {
    c: Vec<Vec<C>>,
    h: usize,
    w: usize,
    dense: usize,
    indexed: bool,
    resized: bool,
    orig_w: usize,
    dirty: Vec<bool>,
}

fn oct(b: bool) -> Octet {
    if b {
        Octet::one()
    } else {
        Octet::zero()
    }
}

impl Model {
    fn new(h: usize, w: usize, hint: usize) -> Model {
        Model {
            c: vec![vec![C::Z; w]; h],
            h,
            w,
            dense: hint,
            indexed: false,
            resized: false,
            orig_w: w,
            dirty: vec![false; w],
        }
    }
    fn first_dense(&self) -> usize {
        self.w - self.dense
    }
    fn defined(&self, row: usize, a: usize, b: usize) -> bool {
        (a..b).all(|j| self.c[row][j] != C::U)
    }
    fn col_defined(&self, col: usize, a: usize, b: usize) -> bool {
        (a..b).all(|i| self.c[i][col] != C::U)
    }

    /// Is `op` inside the envelope of at least one back-end (mutations: of both)?
    fn admissible(&self, op: &Op) -> bool {
        if is_query(op) {
            self.admissible_for(op, true) || self.admissible_for(op, false)
        } else {
            self.admissible_for(op, true) && self.admissible_for(op, false)
        }
    }

    /// Is `op` inside the admissible envelope of the dense (`dense_impl`) / sparse back-end in the
    /// current model state? Queries have a wider envelope on the dense back-end, whose methods
    /// implement the trait for every column range; the sparse back-end documents its restrictions
    /// with unimplemented!() / asserts.
    fn admissible_for(&self, op: &Op, dense_impl: bool) -> bool {
        let fd = self.first_dense();
        match *op {
            Op::Set { i, j, .. } => !self.indexed && i < self.h && j < self.w,
            Op::Enable => {
                // the index builder needs one key slot per physical column id (so height must cover
                // the original width) and a non-empty entry list
                !self.indexed
                    && !self.resized
                    && self.h >= self.orig_w
                    && (0..self.h).any(|i| (0..fd).any(|j| self.c[i][j] == C::O))
            }
            Op::Disable => self.indexed,
            Op::SwapRows { i, j } => i < self.h && j < self.h,
            Op::SwapCols { i, j, hint } => {
                i < fd
                    && j < fd
                    && hint <= self.h
                    && (0..hint).all(|r| {
                        self.c[r][i] != C::U && self.c[r][j] != C::U && self.c[r][i] == self.c[r][j]
                    })
            }
            Op::CountOnes { row, a, b } | Op::RowIter { row, a, b } => {
                // The sparse type rejects anything beyond the first dense column. The dense type
                // serves every range up to the full width - except in one corner where the unchanged
                // tree indexes one word past the matrix: width % 64 == 0, the last row, and a resize
                // has trimmed the allocation slack that DenseBinaryMatrix::new leaves; there
                // get_row_iter(.., width) and count_ones(width, width) panic (undocumented corner,
                // reachable by no client, excluded - see DESIGN section 10).
                if row >= self.h || a > b {
                    return false;
                }
                if !dense_impl {
                    return b <= self.w - self.dense.max(1).min(self.w) && self.defined(row, a, b);
                }
                let corner = self.resized && self.w % 64 == 0 && row == self.h - 1;
                let is_count = matches!(op, Op::CountOnes { .. });
                let ok = if is_count { b <= self.w && (a < self.w || !corner) } else { b <= self.w && (b < self.w || !corner) };
                ok && self.defined(row, a, b)
            }
            Op::OnesInCol { col, a, b } => {
                if dense_impl {
                    col < self.w && a <= b && b <= self.h && self.col_defined(col, a, b)
                } else {
                    self.indexed
                        && col < fd
                        && !self.dirty[col]
                        && a <= b
                        && b <= self.h
                        && self.col_defined(col, a, b)
                }
            }
            Op::Freeze => self.indexed && fd > 1,
            Op::AddRows { dest, src, from_u } => {
                if dest >= self.h || src >= self.h || dest == src {
                    return false;
                }
                if from_u {
                    self.dense > 0
                } else if self.indexed {
                    if !self.defined(src, 0, fd) {
                        return false;
                    }
                    let ones: Vec<usize> = (0..fd).filter(|&j| self.c[src][j] == C::O).collect();
                    ones.len() == 1 && self.c[dest][ones[0]] == C::O
                } else {
                    true
                }
            }
            Op::NzCols { row, start } | Op::SubRow { row, start } => match start {
                None => row < self.h && self.dense > 0 && self.defined(row, fd, self.w),
                Some(c) => dense_impl && row < self.h && c <= self.w && self.defined(row, c, self.w),
            },
            Op::Get { i, j } => i < self.h && j < self.w && self.c[i][j] != C::U,
            Op::Resize { nh, nw } => {
                !self.indexed
                    && nh <= self.h
                    && nw >= 1
                    && nh >= nw
                    && (nw == self.w || nw <= fd)
            }
            Op::Sweep => true,
        }
    }
}

fn is_query(op: &Op) -> bool {
    matches!(
        op,
        Op::CountOnes { .. } | Op::RowIter { .. } | Op::OnesInCol { .. } | Op::NzCols { .. } | Op::SubRow { .. } | Op::Get { .. } | Op::Sweep
    )
}

#[derive(Debug, PartialEq)]
enum Out {
    None,
    Count(usize),
    /// sorted list of columns holding a one
    Cols(Vec<usize>),
    Rows(Vec<u32>),
    Bits(Vec<u8>),
    Bit(bool),
}

pub struct Failure {
    pub oracle: String,
    pub detail: String,
    pub at: usize,
}

fn apply_impl<M: BinaryMatrix>(m: &mut M, md: &Model, op: &Op, dense_impl: bool) -> Out {
    let fd = md.first_dense();
    match *op {
        Op::Set { i, j, v } => {
            m.set(i, j, oct(v));
            Out::None
        }
        Op::Enable => {
            m.enable_column_access_acceleration();
            Out::None
        }
        Op::Disable => {
            m.disable_column_access_acceleration();
            Out::None
        }
        Op::SwapRows { i, j } => {
            m.swap_rows(i, j);
            Out::None
        }
        Op::SwapCols { i, j, hint } => {
            m.swap_columns(i, j, hint);
            Out::None
        }
        Op::CountOnes { row, a, b } => Out::Count(m.count_ones(row, a, b)),
        Op::RowIter { row, a, b } => {
            let it: Vec<(usize, Octet)> = m.get_row_iter(row, a, b).collect();
            let cl: Vec<(usize, Octet)> = m.get_row_iter(row, a, b).clone().collect();
            if dense_impl {
                // the dense iterator is positional: every column of [a, b) in order
                let pos_ok = it.iter().map(|x| x.0).eq(a..b) && cl.iter().map(|x| x.0).eq(a..b);
                if !pos_ok {
                    return Out::Cols(vec![usize::MAX]);
                }
            }
            let mut cols: Vec<usize> = it
                .iter()
                .filter(|x| x.1 != Octet::zero())
                .map(|x| x.0)
                .collect();
            let mut cols2: Vec<usize> = cl
                .iter()
                .filter(|x| x.1 != Octet::zero())
                .map(|x| x.0)
                .collect();
            cols.sort_unstable();
            cols2.sort_unstable();
            if cols != cols2 {
                return Out::Cols(vec![usize::MAX - 1]);
            }
            // a snapshot (clone) taken after the iterator has been advanced k steps continues exactly like
            // the original: both yield the remainder of the first pass (k a fixed function of the query)
            if !it.is_empty() {
                let k = (row * 7 + a * 3 + b) % (it.len() + 1);
                let mut orig = m.get_row_iter(row, a, b);
                for _ in 0..k {
                    orig.next();
                }
                let snap = orig.clone();
                let rest_snap: Vec<(usize, Octet)> = snap.collect();
                let rest_orig: Vec<(usize, Octet)> = orig.collect();
                if rest_snap != it[k..] || rest_orig != it[k..] {
                    return Out::Cols(vec![usize::MAX - 2]);
                }
            }
            Out::Cols(cols)
        }
        Op::OnesInCol { col, a, b } => {
            let mut r = m.get_ones_in_column(col, a, b);
            let mut r2 = vec![7u32; 3];
            m.get_ones_in_column_into(col, a, b, &mut r2);
            r.sort_unstable();
            r2.sort_unstable();
            if r != r2 {
                return Out::Rows(vec![u32::MAX]);
            }
            Out::Rows(r)
        }
        Op::Freeze => {
            m.hint_column_dense_and_frozen(fd - 1);
            Out::None
        }
        Op::AddRows { dest, src, from_u } => {
            m.add_assign_rows(dest, src, if from_u { fd } else { 0 });
            Out::None
        }
        Op::NzCols { row, start } => {
            let fd = start.unwrap_or(fd);
            let r = m.query_non_zero_columns(row, fd);
            let mut r2 = vec![9usize; 2];
            m.query_non_zero_columns_into(row, fd, &mut r2);
            if r != r2 {
                return Out::Cols(vec![usize::MAX]);
            }
            // the interface returns them in increasing column order on both back-ends
            Out::Cols(r)
        }
        Op::SubRow { row, start } => {
            let fd = start.unwrap_or(fd);
            let v = m.get_sub_row_as_octets(row, fd);
            if v.len() != md.w - fd {
                return Out::Bits(vec![0xEE]);
            }
            Out::Bits(v.verif_to_octet_vec())
        }
        Op::Get { i, j } => Out::Bit(m.get(i, j) != Octet::zero()),
        Op::Resize { nh, nw } => {
            m.resize(nh, nw);
            Out::None
        }
        Op::Sweep => Out::None,
    }
}

fn apply_model(md: &mut Model, op: &Op, probes: &mut Counters) -> Out {
    let fd = md.first_dense();
    match *op {
        Op::Set { i, j, v } => {
            md.c[i][j] = if v { C::O } else { C::Z };
            Out::None
        }
        Op::Enable => {
            md.indexed = true;
            for d in md.dirty.iter_mut() {
                *d = false;
            }
            Out::None
        }
        Op::Disable => {
            md.indexed = false;
            Out::None
        }
        Op::SwapRows { i, j } => {
            if i == j {
                probes.inc("swap_row_with_itself");
            }
            md.c.swap(i, j);
            Out::None
        }
        Op::SwapCols { i, j, hint } => {
            if i == j {
                probes.inc("swap_col_with_itself");
            }
            if hint > 0 {
                probes.inc("swap_cols_with_row_hint");
            }
            for row in md.c.iter_mut() {
                row.swap(i, j);
            }
            md.dirty.swap(i, j);
            Out::None
        }
        Op::CountOnes { row, a, b } => {
            Out::Count((a..b).filter(|&j| md.c[row][j] == C::O).count())
        }
        Op::RowIter { row, a, b } => Out::Cols((a..b).filter(|&j| md.c[row][j] == C::O).collect()),
        Op::OnesInCol { col, a, b } => Out::Rows(
            (a..b)
                .filter(|&i| md.c[i][col] == C::O)
                .map(|i| i as u32)
                .collect(),
        ),
        Op::Freeze => {
            let before = md.dense;
            md.dense += 1;
            if before % 64 == 0 && before > 0 {
                probes.inc("tail_grows_across_word_boundary");
            }
            Out::None
        }
        Op::AddRows { dest, src, from_u } => {
            let c0 = if from_u { fd } else { 0 };
            if md.indexed {
                probes.inc("row_add_in_indexed_mode");
                if !from_u {
                    let pivot = (0..fd).find(|&j| md.c[src][j] == C::O).unwrap();
                    md.dirty[pivot] = true;
                }
            }
            for j in 0..md.w {
                if j < c0 {
                    if md.c[dest][j] != C::U {
                        probes.inc("undef_created");
                    }
                    md.c[dest][j] = C::U;
                } else {
                    md.c[dest][j] = match (md.c[dest][j], md.c[src][j]) {
                        (C::U, _) | (_, C::U) => {
                            probes.inc("undef_propagated");
                            C::U
                        }
                        (a, b) => {
                            if (a == C::O) != (b == C::O) {
                                C::O
                            } else {
                                C::Z
                            }
                        }
                    };
                }
            }
            Out::None
        }
        Op::NzCols { row, start } => {
            if start.is_some() {
                probes.inc("dense_only_query");
            }
            let fd = start.unwrap_or(fd);
            Out::Cols((fd..md.w).filter(|&j| md.c[row][j] == C::O).collect())
        }
        Op::SubRow { row, start } => {
            if start.is_some() {
                probes.inc("dense_only_query");
            }
            let fd = start.unwrap_or(fd);
            Out::Bits((fd..md.w).map(|j| (md.c[row][j] == C::O) as u8).collect())
        }
        Op::Get { i, j } => Out::Bit(md.c[i][j] == C::O),
        Op::Resize { nh, nw } => {
            md.c.truncate(nh);
            for row in md.c.iter_mut() {
                row.truncate(nw);
            }
            md.h = nh;
            if nw < md.w {
                if md.dense > 0 {
                    probes.inc("resize_drops_tail");
                }
                md.dense = 0;
            } else if md.dense > 0 {
                probes.inc("resize_keeps_tail");
            }
            md.w = nw;
            md.dirty.truncate(nw);
            md.resized = true;
            Out::None
        }
        Op::Sweep => Out::None,
    }
}

fn op_kind(op: &Op) -> &'static str {
    match op {
        Op::Set { .. } => "set",
        Op::Enable => "enable",
        Op::Disable => "disable",
        Op::SwapRows { .. } => "swap_rows",
        Op::SwapCols { .. } => "swap_columns",
        Op::CountOnes { .. } => "count_ones",
        Op::RowIter { .. } => "get_row_iter",
        Op::OnesInCol { .. } => "get_ones_in_column",
        Op::Freeze => "hint_column_dense_and_frozen",
        Op::AddRows { .. } => "add_assign_rows",
        Op::NzCols { .. } => "query_non_zero_columns",
        Op::SubRow { .. } => "get_sub_row_as_octets",
        Op::Get { .. } => "get",
        Op::Resize { .. } => "resize",
        Op::Sweep => "sweep",
    }
}

fn sweep<M: BinaryMatrix>(m: &M, md: &Model) -> Result<(), String> {
    if m.height() != md.h || m.width() != md.w {
        return Err(format!(
            "shape {}x{} model {}x{}",
            m.height(),
            m.width(),
            md.h,
            md.w
        ));
    }
    for i in 0..md.h {
        for j in 0..md.w {
            match md.c[i][j] {
                C::U => {}
                x => {
                    let g = m.get(i, j) != Octet::zero();
                    if g != (x == C::O) {
                        return Err(format!("get({i},{j}) = {} model {:?}", g as u8, x));
                    }
                }
            }
        }
    }
    Ok(())
}

pub struct ExecStats {
    pub executed: usize,
    pub skipped: usize,
    pub shape: u64,
}

/// Execute a history against model, dense and sparse. Ops outside the envelope (possible after
/// minimisation removed their enablers) are skipped.
pub fn execute(hist: &History, probes: &mut Counters, states: Option<&mut HashSet64>) -> Result<ExecStats, Failure> {
    let (h, w, hint) = (hist.h, hist.w, hist.hint);
    if !(w >= 2 && h >= w && hint >= 1 && hint < w) {
        return Ok(ExecStats { executed: 0, skipped: hist.ops.len(), shape: 0 });
    }
    let mut md = Model::new(h, w, hint);
    let mk = guarded(|| {
        (
            DenseBinaryMatrix::new(h, w, hint),
            SparseBinaryMatrix::new(h, w, hint),
        )
    });
    let (mut d, mut s) = match mk {
        Ok(x) => x,
        Err(p) => {
            return Err(Failure { oracle: format!("new:panic:{}", panic_class(&p)), detail: p, at: 0 })
        }
    };
    let mut executed = 0;
    let mut skipped = 0;
    let mut kinds = Digest::new();
    let mut states = states;
    for (at, op) in hist.ops.iter().enumerate() {
        if !md.admissible(op) {
            skipped += 1;
            continue;
        }
        executed += 1;
        kinds.str(op_kind(op));
        let adm_d = md.admissible_for(op, true);
        let adm_s = md.admissible_for(op, false);
        let expected_pre_dense = if adm_d { Some(guarded(|| apply_impl(&mut d, &md, op, true))) } else { None };
        let expected_pre_sparse = if adm_s { Some(guarded(|| apply_impl(&mut s, &md, op, false))) } else { None };
        if adm_d != adm_s {
            probes.inc("query_on_one_backend_only");
        }
        let expected = apply_model(&mut md, op, probes);
        if let Some(st) = states.as_deref_mut() {
            let mut dg = Digest::new();
            dg.u64(md.w as u64);
            dg.u64((md.dense % 64) as u64);
            dg.u64(md.indexed as u64);
            dg.str(op_kind(op));
            st.insert(dg.finish64());
        }
        for (name, got) in [("dense", expected_pre_dense), ("sparse", expected_pre_sparse)] {
            let Some(got) = got else { continue };
            match got {
                Err(p) => {
                    return Err(Failure {
                        oracle: format!("{name}:{}:panic:{}", op_kind(op), panic_class(&p)),
                        detail: format!("{op:?} panicked: {p}"),
                        at,
                    })
                }
                Ok(out) => {
                    if out != expected {
                        return Err(Failure {
                            oracle: format!("{name}:{}", op_kind(op)),
                            detail: format!("{op:?} returned {out:?}, model {expected:?}"),
                            at,
                        });
                    }
                }
            }
        }
        let do_sweep = matches!(op, Op::Sweep | Op::Resize { .. } | Op::Enable | Op::Disable);
        if do_sweep {
            for (name, r) in [
                ("dense", guarded(|| sweep(&d, &md))),
                ("sparse", guarded(|| sweep(&s, &md))),
            ] {
                match r {
                    Err(p) => {
                        return Err(Failure {
                            oracle: format!("{name}:sweep:panic:{}", panic_class(&p)),
                            detail: format!("sweep after {op:?} panicked: {p}"),
                            at,
                        })
                    }
                    Ok(Err(e)) => {
                        return Err(Failure {
                            oracle: format!("{name}:sweep"),
                            detail: format!("after {op:?}: {e}"),
                            at,
                        })
                    }
                    Ok(Ok(())) => {}
                }
            }
        }
    }
    // final sweep always
    for (name, r) in [
        ("dense", guarded(|| sweep(&d, &md))),
        ("sparse", guarded(|| sweep(&s, &md))),
    ] {
        match r {
            Err(p) => {
                return Err(Failure {
                    oracle: format!("{name}:sweep:panic:{}", panic_class(&p)),
                    detail: format!("final sweep panicked: {p}"),
                    at: hist.ops.len(),
                })
            }
            Ok(Err(e)) => {
                return Err(Failure { oracle: format!("{name}:sweep"), detail: format!("final: {e}"), at: hist.ops.len() })
            }
            Ok(Ok(())) => {}
        }
    }
    Ok(ExecStats { executed, skipped, shape: kinds.finish64() })
}

// ------------------------------------------------------------------------------------------------
// generation

const WIDTHS: [usize; 18] = [3, 5, 17, 40, 63, 64, 65, 66, 100, 127, 128, 129, 130, 191, 192, 193, 200, 300];
/// wider matrices (4-9 words per row), drawn less often because every sweep costs O(h*w)
const WIDE: [usize; 9] = [255, 256, 257, 319, 320, 321, 384, 449, 513];

pub fn generate(seed: u64) -> History {
    let mut r = Rng::new(seed);
    let w = if r.chance(1, 10) { *r.pick(&WIDE) } else { *r.pick(&WIDTHS) };
    let h = if r.chance(1, 6) { w + r.urange(20, 120) } else { w + r.usize_below(20) };
    let hint = match r.below(4) {
        0 => 1 + r.usize_below((w - 1).min(3)),
        1 => (1 + r.usize_below((w - 1).min(70))).max(1),
        2 => {
            // near a word boundary so that freezing crosses it
            let base = *r.pick(&[60usize, 62, 63, 64, 65, 126, 127, 128, 190, 191, 192, 254, 255, 256]);
            base.min(w - 1).max(1)
        }
        _ => 1 + r.usize_below(w - 1),
    };
    let mut md = Model::new(h, w, hint);
    let mut ops: Vec<Op> = vec![];
    let mut scratch = Counters::default();
    macro_rules! push {
        ($md:expr, $ops:expr, $op:expr) => {
            push_op($md, $ops, &mut scratch, $op)
        };
    }

    // construction: sparse-ish rows, denser tail
    let fd0 = w - hint;
    let per_row = 1 + r.usize_below(4);
    for i in 0..h {
        for _ in 0..per_row {
            if fd0 > 0 && !r.chance(1, 5) {
                let j = r.usize_below(fd0);
                push!(&mut md, &mut ops, Op::Set { i, j, v: true });
            } else {
                let j = fd0 + r.usize_below(hint);
                push!(&mut md, &mut ops, Op::Set { i, j, v: true });
            }
        }
        if r.chance(1, 8) {
            let j = r.usize_below(w);
            push!(&mut md, &mut ops, Op::Set { i, j, v: false });
        }
    }
    // "heavy rows": a few rows with 64..160 ones in the sparse region (long sparse vectors), which
    // later receive short rows while the column index is off - the merge of a short into a long
    // sparse vector, which the solver itself only performs on much shorter rows
    let heavy_rows: Vec<usize> = if fd0 >= 80 && r.chance(1, 6) {
        let n = r.urange(1, 3);
        let rows: Vec<usize> = (0..n).map(|_| r.usize_below(h)).collect();
        for &i in &rows {
            let want = r.urange(64, 160.min(fd0 - 4));
            let mut cols: Vec<usize> = (0..fd0).collect();
            r.shuffle(&mut cols);
            for &j in &cols[..want] {
                push!(&mut md, &mut ops, Op::Set { i, j, v: true });
            }
        }
        rows
    } else {
        vec![]
    };
    // a few rows with a single one in the sparse region (they drive the elimination macro)
    if !(0..h).any(|i| (0..fd0).any(|j| md.c[i][j] == C::O)) {
        push!(&mut md, &mut ops, Op::Set { i: 0, j: 0, v: true });
    }
    if r.chance(1, 4) {
        push!(&mut md, &mut ops, Op::Sweep);
    }

    // a client may permute rows (and sparse columns) before it builds the column index
    if r.chance(1, 3) {
        for _ in 0..r.urange(1, 6) {
            let (i, j) = (r.usize_below(md.h), r.usize_below(md.h));
            push!(&mut md, &mut ops, Op::SwapRows { i, j });
        }
        if fd0 > 1 && r.chance(1, 2) {
            let (i, j) = (r.usize_below(fd0), r.usize_below(fd0));
            push!(&mut md, &mut ops, Op::SwapCols { i, j, hint: 0 });
        }
    }
    let never_index = r.chance(1, 10) || (!heavy_rows.is_empty() && r.chance(1, 2));
    let nops = 10 + r.usize_below(70);
    if !never_index {
        push!(&mut md, &mut ops, Op::Enable);
    }
    let mut disabled_once = false;
    let allow_reenable = r.chance(1, 5);
    let mut step = 0;
    while step < nops {
        step += 1;
        let fd = md.first_dense();
        if md.indexed && r.chance(1, 25) {
            push!(&mut md, &mut ops, Op::Disable);
            disabled_once = true;
            continue;
        }
        if !md.indexed && disabled_once && allow_reenable && r.chance(1, 12) {
            push!(&mut md, &mut ops, Op::Enable);
            continue;
        }
        match r.below(16) {
            0 => {
                let (i, j) = (r.usize_below(md.h), r.usize_below(md.h));
                push!(&mut md, &mut ops, Op::SwapRows { i, j });
            }
            1 if fd > 0 => {
                let (i, j) = (r.usize_below(fd), r.usize_below(fd));
                // largest admissible hint, then sometimes smaller
                let mut hint = 0;
                while hint < md.h
                    && md.c[hint][i] != C::U
                    && md.c[hint][j] != C::U
                    && md.c[hint][i] == md.c[hint][j]
                {
                    hint += 1;
                }
                let hint = match r.below(3) {
                    0 => 0,
                    1 => hint,
                    _ => r.usize_below(hint + 1),
                };
                push!(&mut md, &mut ops, Op::SwapCols { i, j, hint });
            }
            2 | 3 => {
                // mostly inside the common envelope; sometimes up to the dense back-end's own limit
                // (full width for count_ones, one less for the row iterator: see admissible_for)
                let lim = if r.chance(1, 4) { md.w } else { md.w - md.dense.max(1).min(md.w) };
                // the last and the first row are where an access one word too far leaves the matrix
                let row = match r.below(10) {
                    0 | 1 => md.h - 1,
                    2 => 0,
                    _ => r.usize_below(md.h),
                };
                let a = r.usize_below(lim + 1);
                let b = match r.below(4) {
                    0 => lim,
                    1 => a,
                    _ => a + r.usize_below(lim + 1 - a),
                };
                if r.chance(1, 2) {
                    push!(&mut md, &mut ops, Op::CountOnes { row, a, b });
                } else {
                    push!(&mut md, &mut ops, Op::RowIter { row, a, b });
                }
            }
            4 if (md.indexed && fd > 0) || r.chance(1, 3) => {
                let col = if md.indexed && fd > 0 && !r.chance(1, 5) { r.usize_below(fd) } else { r.usize_below(md.w) };
                let a = if r.chance(1, 2) { 0 } else { r.usize_below(md.h + 1) };
                let b = if r.chance(1, 2) { md.h } else { a + r.usize_below(md.h + 1 - a) };
                push!(&mut md, &mut ops, Op::OnesInCol { col, a, b });
            }
            5 if md.indexed => {
                let big = r.chance(1, 4);
                let n = 1 + r.usize_below(if big { 8 } else { 2 });
                for _ in 0..n {
                    push!(&mut md, &mut ops, Op::Freeze);
                }
            }
            6 | 7 => {
                let dest = if !heavy_rows.is_empty() && !md.indexed && r.chance(2, 3) { *r.pick(&heavy_rows) } else { r.usize_below(md.h) };
                let src = r.usize_below(md.h);
                let from_u = r.chance(1, 2);
                push!(&mut md, &mut ops, Op::AddRows { dest, src, from_u });
            }
            8 | 9 if md.indexed => {
                // elimination macro, mirroring one step of the solver's first phase
                elimination_step(&mut r, &mut md, &mut ops, &mut scratch);
            }
            10 => {
                let row = r.usize_below(md.h);
                let start = if r.chance(1, 3) || md.dense == 0 { Some(r.usize_below(md.w + 1)) } else { None };
                if r.chance(1, 2) {
                    push!(&mut md, &mut ops, Op::NzCols { row, start });
                } else {
                    push!(&mut md, &mut ops, Op::SubRow { row, start });
                }
            }
            11 if !md.indexed => {
                let (i, j) = (r.usize_below(md.h), r.usize_below(md.w));
                let v = r.chance(1, 2);
                push!(&mut md, &mut ops, Op::Set { i, j, v });
            }
            12 if !md.indexed && r.chance(1, 4) => {
                let nw = if r.chance(1, 2) { md.w } else { 1 + r.usize_below(fd.max(1)) };
                // often exactly a whole number of words
                let nw = if nw != md.w && nw >= 64 && r.chance(1, 3) { nw / 64 * 64 } else { nw };
                let nh = if r.chance(1, 2) { md.h } else { nw + r.usize_below(md.h - nw.min(md.h) + 1) };
                let nh = nh.min(md.h);
                push!(&mut md, &mut ops, Op::Resize { nh, nw });
            }
            13 => {
                let (i, j) = (r.usize_below(md.h), r.usize_below(md.w));
                push!(&mut md, &mut ops, Op::Get { i, j });
            }
            14 if r.chance(1, 3) => {
                push!(&mut md, &mut ops, Op::Sweep);
            }
            _ => {}
        }
    }
    History { h, w, hint, ops }
}

fn push_op(md: &mut Model, ops: &mut Vec<Op>, scratch: &mut Counters, op: Op) -> bool {
    if md.admissible(&op) {
        apply_model(md, &op, scratch);
        ops.push(op);
        true
    } else {
        false
    }
}

/// One step of the first phase as the solver performs it: pick a row, move all but one of its ones
/// (in the sparse region) to the trailing sparse columns, freeze those, then add the row to every
/// row below that has a one in the pivot column.
fn elimination_step(r: &mut Rng, md: &mut Model, ops: &mut Vec<Op>, scratch: &mut Counters) {
    let fd = md.first_dense();
    if fd < 2 {
        return;
    }
    // candidate rows: sparse part fully defined with 1..=3 ones
    let mut cands: Vec<usize> = (0..md.h)
        .filter(|&i| {
            md.defined(i, 0, fd) && {
                let n = (0..fd).filter(|&j| md.c[i][j] == C::O).count();
                (1..=3).contains(&n) && n < fd
            }
        })
        .collect();
    if cands.is_empty() {
        return;
    }
    let row = cands.swap_remove(r.usize_below(cands.len()));
    let ones: Vec<usize> = (0..fd).filter(|&j| md.c[row][j] == C::O).collect();
    let keep = ones[r.usize_below(ones.len())];
    let mut fdx = fd;
    let mut do_op = |md: &mut Model, ops: &mut Vec<Op>, op: Op| push_op(md, ops, scratch, op);
    // move the other ones to the end of the sparse region and freeze them
    loop {
        let others: Vec<usize> = (0..fdx)
            .filter(|&j| md.c[row][j] == C::O && j != keep)
            .collect();
        let Some(&col) = others.last() else { break };
        let dest = fdx - 1;
        if dest == keep {
            return; // cannot keep the pivot out of the tail; give up (still a valid prefix)
        }
        if col != dest && !do_op(md, ops, Op::SwapCols { i: dest, j: col, hint: 0 }) {
            return;
        }
        if !do_op(md, ops, Op::Freeze) {
            return;
        }
        fdx -= 1;
    }
    // now `row` has exactly one 1 in the sparse region, at `keep`
    if !md.dirty[keep] && md.col_defined(keep, 0, md.h) {
        let h = md.h;
        do_op(md, ops, Op::OnesInCol { col: keep, a: 0, b: h });
    }
    let targets: Vec<usize> = (0..md.h)
        .filter(|&i| i != row && md.c[i][keep] == C::O)
        .collect();
    let from_u = r.chance(1, 2); // release (errata 11) vs debug flavour of the solver
    for dest in targets {
        do_op(md, ops, Op::AddRows { dest, src: row, from_u });
    }
}

// ------------------------------------------------------------------------------------------------
// batch / replay

const STREAM: u64 = 16;

fn make_violation(ctx: &Ctx, run: u64, hist: &History, f: &Failure, min_from: Option<(usize, usize)>) -> Violation {
    Violation {
        property: "C16".into(),
        oracle: f.oracle.clone(),
        signature: format!("matrix:{}:w={}:hint={}", f.oracle, hist.w, hist.hint),
        seed: ctx.seed,
        run,
        engine: "matrix",
        observed: format!("op #{}: {}", f.at, f.detail),
        scenario: serde_json::to_value(hist).unwrap(),
        minimised_from: min_from,
    }
}

fn fails_same(hist: &History, oracle: &str) -> Option<Failure> {
    let mut c = Counters::default();
    match execute(hist, &mut c, None) {
        Err(f) if f.oracle == oracle => Some(f),
        _ => None,
    }
}

pub fn minimise(hist: &History, oracle: &str) -> History {
    let mut best = hist.clone();
    // truncate after the failing op
    if let Some(f) = fails_same(&best, oracle) {
        let mut t = best.clone();
        t.ops.truncate((f.at + 1).min(t.ops.len()));
        if fails_same(&t, oracle).is_some() {
            best = t;
        }
    }
    let ops = ddmin(&best.ops, |cand| {
        let h = History { ops: cand.to_vec(), ..best.clone() };
        fails_same(&h, oracle).is_some()
    });
    best.ops = ops;
    // shrink the height (rows at the bottom that no op touches)
    loop {
        if best.h <= best.w {
            break;
        }
        let cand = History { h: best.h - 1, ..best.clone() };
        if fails_same(&cand, oracle).is_some() {
            best = cand;
        } else {
            break;
        }
    }
    best
}

#[derive(Default)]
struct Acc {
    probes: Counters,
    states: HashSet64,
    shapes: HashSet64,
    ops_executed: u64,
    ops_skipped: u64,
    runs: u64,
    samples: Vec<serde_json::Value>,
}

pub fn run(ctx: &Ctx) -> i32 {
    let t0 = std::time::Instant::now();
    let n = ctx.runs(20_000, 2_000_000);
    let seed = ctx.seed;
    let (acc, fail) = par_fold(
        n,
        ctx.workers,
        256,
        |run, acc: &mut Acc| {
            let hist = generate(run_seed(seed, STREAM, run));
            acc.runs += 1;
            let r = execute(&hist, &mut acc.probes, Some(&mut acc.states));
            match r {
                Ok(st) => {
                    acc.ops_executed += st.executed as u64;
                    acc.ops_skipped += st.skipped as u64;
                    acc.shapes.insert(st.shape);
                    if run < 2 {
                        let mut h = hist.clone();
                        let total = h.ops.len();
                        let sets = h.ops.iter().filter(|o| matches!(o, Op::Set { .. })).count();
                        h.ops.retain(|o| !matches!(o, Op::Set { .. }));
                        acc.samples.push(json!({"run": run, "h": h.h, "w": h.w, "hint": h.hint, "ops_total": total, "construction_sets_elided": sets, "ops_after_construction": h.ops}));
                    }
                    Ok(())
                }
                Err(f) => Err((hist, f)),
            }
        },
        |a, b| {
            a.probes.merge(&b.probes);
            a.states.merge(b.states);
            a.shapes.merge(b.shapes);
            a.ops_executed += b.ops_executed;
            a.ops_skipped += b.ops_skipped;
            a.runs += b.runs;
            a.samples.extend(b.samples);
        },
        Acc::default(),
    );
    let mut violations = vec![];
    if let Some((run, (hist, f))) = fail {
        let min = minimise(&hist, &f.oracle);
        let f2 = fails_same(&min, &f.oracle).unwrap_or(f);
        violations.push(make_violation(ctx, run, &min, &f2, Some((hist.ops.len(), min.ops.len()))));
    }
    let mut probes = acc.probes.clone();
    for k in [
        "tail_grows_across_word_boundary",
        "resize_drops_tail",
        "resize_keeps_tail",
        "undef_created",
        "undef_propagated",
        "swap_col_with_itself",
        "swap_cols_with_row_hint",
        "row_add_in_indexed_mode",
        "dense_only_query",
        "query_on_one_backend_only",
    ] {
        probes.touch(k);
    }
    for z in probes.zeros() {
        eprintln!("WARNING: C16 probe '{z}' never fired in this batch");
    }
    let wall = t0.elapsed().as_secs_f64();
    report::write_evidence(
        ctx,
        &Evidence {
            level: "exploration",
            evaluations: acc.runs,
            distinct_nontrivial: acc.shapes.len() as u64,
            rule: "one evaluation = one seeded operation history (construction / indexed / un-indexed phases) executed on DenseBinaryMatrix, SparseBinaryMatrix and the bit-array model, every return value compared on defined cells; distinct_nontrivial = number of distinct executed operation-kind sequences (hash of the sequence of operation kinds inside the envelope; a history with zero executed operations is not counted)".into(),
            samples: acc.samples.clone(),
            extra: json!({
                "operations_executed": acc.ops_executed,
                "operations_skipped_outside_envelope": acc.ops_skipped,
                "distinct_states": acc.states.len(),
                "distinct_states_measure": "distinct (width, dense-tail width mod 64, indexed?, operation kind) tuples reached",
                "probes": probes.to_json(),
                "fault_kinds": "none exist for this component (sequential, no I/O); the searched dimension is the operation history",
                "simulated_time": "not applicable (no clock); histories of up to ~90 post-construction operations",
                "real_components": ["DenseBinaryMatrix", "SparseBinaryMatrix", "SparseBinaryVec", "ImmutableListMap", "OctetIter/ClonedOctetIter", "BinaryOctetVec"],
                "stub_components": ["reference bit-array model (oracle)", "history generator"],
            }),
            assumptions: vec![
                "mutations: admissible envelope read off the only client (the solver); queries: per back-end (the dense back-end implements every column range, the sparse one only what it does not reject with unimplemented!()/asserts); h >= w, hint >= 1, at least one 1 in the sparse region before the index is built, range queries end at or before the dense tail (and never at the full width), freeze only the last sparse column while >= 2 sparse columns remain, indexed-mode row addition from column 0 only with a single-one source row whose pivot the destination holds".into(),
                "cells left of start_col after a partial row addition are undefined and excluded".into(),
            ],
            wall_s: wall,
            violations: violations.len() as u64,
        },
    );
    println!(
        "C16 {}: {} histories, {} ops executed, {} distinct op-kind sequences, {:.1}s",
        ctx.tier(),
        acc.runs,
        acc.ops_executed,
        acc.shapes.len(),
        wall
    );
    report::conclude(ctx, &violations)
}

pub fn replay(ctx: &Ctx, doc: &serde_json::Value) -> i32 {
    let hist: History = match serde_json::from_value(doc["scenario"].clone()) {
        Ok(h) => h,
        Err(e) => {
            eprintln!("HARNESS-ERROR: bad C16 scenario: {e}");
            return 2;
        }
    };
    let mut c = Counters::default();
    match execute(&hist, &mut c, None) {
        Ok(_) => {
            println!("replay: history passes ({} ops)", hist.ops.len());
            0
        }
        Err(f) => {
            let v = make_violation(ctx, doc["run"].as_u64().unwrap_or(0), &hist, &f, None);
            println!(
                "VIOLATION property=C16 replay={} oracle={} :: {}",
                doc["__path"].as_str().unwrap_or("?"),
                v.oracle,
                v.observed
            );
            1
        }
    }
}
