//! Violation reporting, replay files, known findings, evidence files.

use crate::util::Ctx;
use serde_json::{json, Value};
use std::path::PathBuf;

#[derive(Clone, Debug)]
pub struct Violation {
    pub property: String,
    /// which oracle failed (stable id; minimisation keeps this fixed)
    pub oracle: String,
    /// the specific failing input / call site, used to match known findings
    pub signature: String,
    pub seed: u64,
    pub run: u64,
    pub engine: &'static str,
    pub observed: String,
    /// the resolved scenario: everything `replay` needs
    pub scenario: Value,
    pub minimised_from: Option<(usize, usize)>,
}

impl Violation {
    pub fn to_json(&self) -> Value {
        json!({
            "format": 1,
            "property": self.property,
            "oracle": self.oracle,
            "signature": self.signature,
            "seed": self.seed,
            "run": self.run,
            "engine": self.engine,
            "scenario": self.scenario,
            "observed": self.observed,
            "minimised_from": self.minimised_from.map(|(a, b)| json!({"events": a, "to": b})),
        })
    }
}

pub fn write_replay(ctx: &Ctx, v: &Violation) -> PathBuf {
    let dir = ctx.verif_dir.join("replays");
    let _ = std::fs::create_dir_all(&dir);
    let name = format!(
        "{}_{}_{}_{}.json",
        v.property,
        v.oracle.replace(|c: char| !c.is_ascii_alphanumeric(), "-"),
        v.seed,
        v.run
    );
    let path = dir.join(name);
    let mut doc = v.to_json();
    if let Some(r) = ctx.slice_rate {
        // found with the clock running fast: `replay` puts the process under the same clock
        doc["clock_rate"] = json!(r);
    }
    let _ = std::fs::write(&path, serde_json::to_string_pretty(&doc).unwrap());
    path
}

#[derive(Clone, Debug)]
pub struct KnownFinding {
    pub property: String,
    pub status: String,
    pub signature: String,
}

pub fn load_known(ctx: &Ctx) -> Vec<KnownFinding> {
    let path = ctx.verif_dir.join("known_findings.json");
    let Ok(text) = std::fs::read_to_string(path) else {
        return vec![];
    };
    let Ok(v) = serde_json::from_str::<Value>(&text) else {
        eprintln!("HARNESS-ERROR: known_findings.json does not parse");
        std::process::exit(2);
    };
    v["findings"]
        .as_array()
        .cloned()
        .unwrap_or_default()
        .iter()
        .map(|f| KnownFinding {
            property: f["property"].as_str().unwrap_or("").to_string(),
            status: f["status"].as_str().unwrap_or("").to_string(),
            signature: f["signature"].as_str().unwrap_or("").to_string(),
        })
        .collect()
}

/// Returns true iff the violation is listed as an *open* known finding (exact signature match).
pub fn is_known_open(known: &[KnownFinding], v: &Violation) -> bool {
    known
        .iter()
        .any(|k| k.status == "open" && k.property == v.property && k.signature == v.signature)
}

/// Print the result lines for a list of violations and return the exit code.
pub fn conclude(ctx: &Ctx, violations: &[Violation]) -> i32 {
    let known = load_known(ctx);
    let mut code = 0;
    for v in violations {
        if is_known_open(&known, v) {
            println!(
                "KNOWN-FINDING: property={} {} ({})",
                v.property, v.signature, v.observed
            );
        } else {
            let path = write_replay(ctx, v);
            println!(
                "VIOLATION property={} replay={} oracle={} :: {}",
                v.property,
                path.display(),
                v.oracle,
                v.observed
            );
            code = 1;
        }
    }
    code
}

pub struct Evidence {
    pub level: &'static str,
    pub evaluations: u64,
    pub distinct_nontrivial: u64,
    pub rule: String,
    pub samples: Vec<Value>,
    pub extra: Value,
    pub assumptions: Vec<String>,
    pub wall_s: f64,
    pub violations: u64,
}

pub fn write_evidence(ctx: &Ctx, e: &Evidence) {
    let dir = ctx.verif_dir.join("evidence");
    let _ = std::fs::create_dir_all(&dir);
    let mut coverage = json!({
        "evaluations": e.evaluations,
        "distinct_nontrivial": e.distinct_nontrivial,
        "rule": e.rule,
        "samples": e.samples,
    });
    if let (Some(c), Some(x)) = (coverage.as_object_mut(), e.extra.as_object()) {
        for (k, v) in x {
            c.insert(k.clone(), v.clone());
        }
    }
    let wall_s = e.wall_s;
    let hours = (wall_s / 3600.0).max(1e-9);
    if let Some(c) = coverage.as_object_mut() {
        c.insert(
            "runs_per_hour".into(),
            json!((e.evaluations as f64 / hours) as u64),
        );
    }
    let doc = json!({
        "property_id": ctx.property,
        "tier": ctx.tier(),
        "seed": ctx.seed,
        "level": e.level,
        "coverage": coverage,
        "assumptions": e.assumptions,
        "wall_s": wall_s,
        "violations": e.violations,
    });
    let path = if ctx.slice_rate.is_some() {
        let d = ctx.verif_dir.join("sim").join("target").join("scratch");
        let _ = std::fs::create_dir_all(&d);
        d.join(format!("slice-{}.json", ctx.property))
    } else {
        dir.join(format!("{}.json", ctx.property))
    };
    if let Err(err) = std::fs::write(&path, serde_json::to_string_pretty(&doc).unwrap()) {
        eprintln!("HARNESS-ERROR: cannot write {}: {err}", path.display());
        std::process::exit(2);
    }
}

/// Generic ddmin over a list: returns a (locally) minimal sub-list for which `fails` still holds.
pub fn ddmin<T: Clone>(items: &[T], mut fails: impl FnMut(&[T]) -> bool) -> Vec<T> {
    let mut cur: Vec<T> = items.to_vec();
    let mut n = 2usize;
    let mut budget = 4000usize;
    while cur.len() >= 2 && budget > 0 {
        let chunk = cur.len().div_ceil(n);
        let mut reduced = false;
        let mut start = 0;
        while start < cur.len() && budget > 0 {
            let end = (start + chunk).min(cur.len());
            let mut cand: Vec<T> = Vec::with_capacity(cur.len() - (end - start));
            cand.extend_from_slice(&cur[..start]);
            cand.extend_from_slice(&cur[end..]);
            budget -= 1;
            if !cand.is_empty() && fails(&cand) {
                cur = cand;
                n = n.saturating_sub(1).max(2);
                reduced = true;
                // restart scanning at the same position
            } else {
                start = end;
            }
        }
        if !reduced {
            if n >= cur.len() {
                break;
            }
            n = (n * 2).min(cur.len());
        }
    }
    // final single-element pass
    let mut i = 0;
    while i < cur.len() && cur.len() > 1 && budget > 0 {
        let mut cand = cur.clone();
        cand.remove(i);
        budget -= 1;
        if fails(&cand) {
            cur = cand;
        } else {
            i += 1;
        }
    }
    cur
}

/// The skewed-clock slice of a check: a child process of the same binary, under the clock
/// interposer with time running `RATE` times fast, executing a tenth of the runs with its own seed.
/// Nothing in /repo reads a clock, so on the unchanged tree the slice behaves like any other batch;
/// code that starts to pace itself by wall-clock time (back-off, rate limits, expiry) sees
/// milliseconds of work as minutes.
pub const SKEW_RATE: u64 = 100_000;

pub struct SkewSlice {
    child: std::process::Child,
    prop: String,
}

pub fn spawn_skew_slice(ctx: &Ctx, tier: &str) -> Option<SkewSlice> {
    if ctx.slice_rate.is_some() {
        return None;
    }
    let so = match crate::clock::build(&ctx.verif_dir) {
        Some(s) => s,
        None => {
            eprintln!("HARNESS-ERROR: cannot build the clock interposer with cc");
            std::process::exit(2);
        }
    };
    let mut x = ctx.seed ^ 0x5CE3_51CE;
    let child_seed = crate::prng::splitmix64(&mut x) >> 1;
    let _ = std::fs::remove_file(ctx.verif_dir.join("sim").join("target").join("scratch").join(format!("slice-{}.json", ctx.property)));
    let child = std::process::Command::new(std::env::current_exe().ok()?)
        .args([ctx.property.as_str(), tier])
        .env("LD_PRELOAD", &so)
        .env("VERIF_CLOCKSHIM", "1")
        .env("VERIF_CLOCK_RATE", SKEW_RATE.to_string())
        .env("VERIF_SLICE", "skew")
        .env("VERIF_SEED", child_seed.to_string())
        .env("VERIF_SCALE", format!("{}", ctx.scale * 0.1))
        .env("VERIF_DIR", &ctx.verif_dir)
        .stdout(std::process::Stdio::piped())
        .spawn();
    match child {
        Ok(c) => Some(SkewSlice { child: c, prop: ctx.property.clone() }),
        Err(e) => {
            eprintln!("HARNESS-ERROR: cannot start the skewed-clock slice: {e}");
            std::process::exit(2);
        }
    }
}

impl SkewSlice {
    /// wait for the slice, relay its result lines, fold its summary into the evidence file the
    /// parent has just written; returns the slice's exit code
    pub fn finish(self, ctx: &Ctx) -> i32 {
        let out = match self.child.wait_with_output() {
            Ok(o) => o,
            Err(e) => {
                eprintln!("HARNESS-ERROR: skewed-clock slice: {e}");
                return 2;
            }
        };
        let text = String::from_utf8_lossy(&out.stdout);
        for l in text.lines() {
            if l.starts_with("VIOLATION") || l.starts_with("KNOWN-FINDING") {
                println!("{l}");
            } else if !l.starts_with("rqsim property=") {
                println!("[clock x{SKEW_RATE}] {l}");
            }
        }
        let rc = out.status.code().unwrap_or(2);
        if rc != 0 && rc != 1 {
            eprintln!("HARNESS-ERROR: skewed-clock slice exited with {rc}");
            return 2;
        }
        let spath = ctx.verif_dir.join("sim").join("target").join("scratch").join(format!("slice-{}.json", self.prop));
        let epath = ctx.verif_dir.join("evidence").join(format!("{}.json", self.prop));
        let slice: Option<Value> = std::fs::read_to_string(&spath).ok().and_then(|t| serde_json::from_str(&t).ok());
        let ev: Option<Value> = std::fs::read_to_string(&epath).ok().and_then(|t| serde_json::from_str(&t).ok());
        match (slice, ev) {
            (Some(sl), Some(mut ev)) => {
                ev["coverage"]["clock_skew_slice"] = json!({
                    "what": format!("a tenth of the runs again (own seed {}) in a child process whose clock runs {}x fast (LD_PRELOAD interposer, self-checked)", sl["seed"], SKEW_RATE),
                    "evaluations": sl["coverage"]["evaluations"],
                    "distinct_nontrivial": sl["coverage"]["distinct_nontrivial"],
                    "violations": sl["violations"],
                    "wall_s": sl["wall_s"],
                });
                if let Some(f) = ev["coverage"]["fault_kinds_fired"].as_object_mut() {
                    f.insert("clock_skew_fast_runs".into(), sl["coverage"]["evaluations"].clone());
                }
                if std::fs::write(&epath, serde_json::to_string_pretty(&ev).unwrap()).is_err() {
                    eprintln!("HARNESS-ERROR: cannot rewrite {}", epath.display());
                    return 2;
                }
            }
            _ => {
                eprintln!("HARNESS-ERROR: skewed-clock slice left no summary at {}", spath.display());
                return 2;
            }
        }
        let _ = std::fs::remove_file(&spath);
        rc
    }
}
