//! Violation reporting, replay files, known findings, evidence files.

use crate::util::Ctx;
use serde_json::{json, Value};
use std::path::PathBuf;

#[derive(Clone, Debug)]
pub struct Violation {
    pub property: String,
    /// which oracle failed (stable id; minimisation keeps this fixed)
    pub oracle: String,
    /// the specific failing input / call site, used to match known findings
    pub signature: String,
    pub seed: u64,
    pub run: u64,
    pub engine: &'static str,
    pub observed: String,
    /// the resolved scenario: everything `replay` needs
    pub scenario: Value,
    pub minimised_from: Option<(usize, usize)>,
}

impl Violation {
    pub fn to_json(&self) -> Value {
        json!({
            "format": 1,
            "property": self.property,
            "oracle": self.oracle,
            "signature": self.signature,
            "seed": self.seed,
            "run": self.run,
            "engine": self.engine,
            "scenario": self.scenario,
            "observed": self.observed,
            "minimised_from": self.minimised_from.map(|(a, b)| json!({"events": a, "to": b})),
        })
    }
}

pub fn write_replay(ctx: &Ctx, v: &Violation) -> PathBuf {
    let dir = ctx.verif_dir.join("replays");
    let _ = std::fs::create_dir_all(&dir);
    let name = format!(
        "{}_{}_{}_{}.json",
        v.property,
        v.oracle.replace(|c: char| !c.is_ascii_alphanumeric(), "-"),
        v.seed,
        v.run
    );
    let path = dir.join(name);
    let _ = std::fs::write(&path, serde_json::to_string_pretty(&v.to_json()).unwrap());
    path
}

#[derive(Clone, Debug)]
pub struct KnownFinding {
    pub property: String,
    pub status: String,
    pub signature: String,
}

pub fn load_known(ctx: &Ctx) -> Vec<KnownFinding> {
    let path = ctx.verif_dir.join("known_findings.json");
    let Ok(text) = std::fs::read_to_string(path) else {
        return vec![];
    };
    let Ok(v) = serde_json::from_str::<Value>(&text) else {
        eprintln!("HARNESS-ERROR: known_findings.json does not parse");
        std::process::exit(2);
    };
    v["findings"]
        .as_array()
        .cloned()
        .unwrap_or_default()
        .iter()
        .map(|f| KnownFinding {
            property: f["property"].as_str().unwrap_or("").to_string(),
            status: f["status"].as_str().unwrap_or("").to_string(),
            signature: f["signature"].as_str().unwrap_or("").to_string(),
        })
        .collect()
}

/// Returns true iff the violation is listed as an *open* known finding (exact signature match).
pub fn is_known_open(known: &[KnownFinding], v: &Violation) -> bool {
    known
        .iter()
        .any(|k| k.status == "open" && k.property == v.property && k.signature == v.signature)
}

/// Print the result lines for a list of violations and return the exit code.
pub fn conclude(ctx: &Ctx, violations: &[Violation]) -> i32 {
    let known = load_known(ctx);
    let mut code = 0;
    for v in violations {
        if is_known_open(&known, v) {
            println!(
                "KNOWN-FINDING: property={} {} ({})",
                v.property, v.signature, v.observed
            );
        } else {
            let path = write_replay(ctx, v);
            println!(
                "VIOLATION property={} replay={} oracle={} :: {}",
                v.property,
                path.display(),
                v.oracle,
                v.observed
            );
            code = 1;
        }
    }
    code
}

pub struct Evidence {
    pub level: &'static str,
    pub evaluations: u64,
    pub distinct_nontrivial: u64,
    pub rule: String,
    pub samples: Vec<Value>,
    pub extra: Value,
    pub assumptions: Vec<String>,
    pub wall_s: f64,
    pub violations: u64,
}

pub fn write_evidence(ctx: &Ctx, e: &Evidence) {
    let dir = ctx.verif_dir.join("evidence");
    let _ = std::fs::create_dir_all(&dir);
    let mut coverage = json!({
        "evaluations": e.evaluations,
        "distinct_nontrivial": e.distinct_nontrivial,
        "rule": e.rule,
        "samples": e.samples,
    });
    if let (Some(c), Some(x)) = (coverage.as_object_mut(), e.extra.as_object()) {
        for (k, v) in x {
            c.insert(k.clone(), v.clone());
        }
    }
    let hours = (e.wall_s / 3600.0).max(1e-9);
    if let Some(c) = coverage.as_object_mut() {
        c.insert(
            "runs_per_hour".into(),
            json!((e.evaluations as f64 / hours) as u64),
        );
    }
    let doc = json!({
        "property_id": ctx.property,
        "tier": ctx.tier(),
        "seed": ctx.seed,
        "level": e.level,
        "coverage": coverage,
        "assumptions": e.assumptions,
        "wall_s": e.wall_s,
        "violations": e.violations,
    });
    let path = dir.join(format!("{}.json", ctx.property));
    if let Err(err) = std::fs::write(&path, serde_json::to_string_pretty(&doc).unwrap()) {
        eprintln!("HARNESS-ERROR: cannot write {}: {err}", path.display());
        std::process::exit(2);
    }
}

/// Generic ddmin over a list: returns a (locally) minimal sub-list for which `fails` still holds.
pub fn ddmin<T: Clone>(items: &[T], mut fails: impl FnMut(&[T]) -> bool) -> Vec<T> {
    let mut cur: Vec<T> = items.to_vec();
    let mut n = 2usize;
    let mut budget = 4000usize;
    while cur.len() >= 2 && budget > 0 {
        let chunk = cur.len().div_ceil(n);
        let mut reduced = false;
        let mut start = 0;
        while start < cur.len() && budget > 0 {
            let end = (start + chunk).min(cur.len());
            let mut cand: Vec<T> = Vec::with_capacity(cur.len() - (end - start));
            cand.extend_from_slice(&cur[..start]);
            cand.extend_from_slice(&cur[end..]);
            budget -= 1;
            if !cand.is_empty() && fails(&cand) {
                cur = cand;
                n = n.saturating_sub(1).max(2);
                reduced = true;
                // restart scanning at the same position
            } else {
                start = end;
            }
        }
        if !reduced {
            if n >= cur.len() {
                break;
            }
            n = (n * 2).min(cur.len());
        }
    }
    // final single-element pass
    let mut i = 0;
    while i < cur.len() && cur.len() > 1 && budget > 0 {
        let mut cand = cur.clone();
        cand.remove(i);
        budget -= 1;
        if fails(&cand) {
            cur = cand;
        } else {
            i += 1;
        }
    }
    cur
}
