//! Resolved transfer scenarios and their executor.
//!
//! A scenario is explicit: configuration, object bytes, how each sender replica and receiver is
//! built, and the linear list of events (what the senders emitted, what the network delivered to
//! whom in which batch, snapshots, rollbacks, checkpoints). The live simulator (`sim.rs`) produces
//! such a list while it runs; a replay file *is* such a list. The executor applies events to the
//! real raptorq code and evaluates the oracles of C01, C08 and C18 after every event; for C07 it
//! records the transcript of everything observable.

use crate::prng::{Digest, Rng};
use crate::util::{guarded, panic_class, Counters, HashSet64};
use raptorq::{
    Decoder, Encoder, EncodingPacket, ObjectTransmissionInformation, SourceBlockDecoder,
    SourceBlockEncoder, SourceBlockEncodingPlan,
};
use serde::{Deserialize, Serialize};
use std::collections::{BTreeSet, HashMap};

#[derive(Clone, Copy, Debug, Serialize, Deserialize, PartialEq)]
pub struct Oti {
    pub f: u64,
    pub t: u16,
    pub z: u8,
    pub n: u16,
    pub al: u8,
}

#[derive(Clone, Debug, Serialize, Deserialize, PartialEq)]
#[serde(tag = "kind", rename_all = "snake_case")]
pub enum DataSpec {
    Seeded { seed: u64 },
    Zero,
    Ff,
    Count,
    Hex { hex: String },
    /// all zero except a few random bytes (and, always, the very last byte of the object)
    Sparse { seed: u64 },
    /// one random 13-byte pattern repeated: many symbols and blocks are byte-identical or shifted
    /// copies of each other
    Repeat { seed: u64 },
}

impl DataSpec {
    pub fn bytes(&self, len: usize) -> Vec<u8> {
        match self {
            DataSpec::Seeded { seed } => {
                let mut r = Rng::new(*seed);
                let mut v = vec![0u8; len];
                r.fill(&mut v);
                v
            }
            DataSpec::Zero => vec![0u8; len],
            DataSpec::Ff => vec![0xFFu8; len],
            DataSpec::Count => (0..len).map(|i| (i % 251) as u8).collect(),
            DataSpec::Hex { hex } => {
                let mut v = crate::util::unhex(hex);
                v.resize(len, 0);
                v
            }
            DataSpec::Sparse { seed } => {
                let mut r = Rng::new(*seed);
                let mut v = vec![0u8; len];
                if len > 0 {
                    for _ in 0..(1 + len / 200).min(50) {
                        let i = r.usize_below(len);
                        v[i] = (r.below(255) + 1) as u8;
                    }
                    v[len - 1] = (r.below(255) + 1) as u8;
                }
                v
            }
            DataSpec::Repeat { seed } => {
                let mut r = Rng::new(*seed);
                let mut pat = [0u8; 13];
                r.fill(&mut pat);
                (0..len).map(|i| pat[i % 13]).collect()
            }
        }
    }
}

#[derive(Clone, Debug, Serialize, Deserialize, PartialEq)]
#[serde(tag = "ctor", rename_all = "snake_case")]
pub enum Ctor {
    /// SourceBlockEncoder::new per block (std: through the process-wide plan cache)
    New,
    /// SourceBlockEncoder::with_encoding_plan, one freshly generated plan per block
    Plan,
    /// with_encoding_plan, one plan per distinct block size shared across blocks
    PlanShared,
    /// Encoder::new(data, config)
    EncoderNew,
    /// Encoder::with_defaults(data, mtu); only valid when the OTI was derived from that mtu
    WithDefaults { mtu: u16 },
    /// hook H3: direct solve, no plan, explicit dense/sparse threshold
    Unplanned { threshold: u32 },
}

#[derive(Clone, Copy, Debug, Serialize, Deserialize, PartialEq, Eq)]
#[serde(rename_all = "snake_case")]
pub enum RxKind {
    /// Decoder::decode(packet) per packet
    Decode,
    /// Decoder::add_new_packet + get_result
    Add,
    /// one SourceBlockDecoder per block, fed in the network's batches
    Block,
    /// one Decoder driven through both interfaces: each packet goes through decode() or through
    /// add_new_packet() (+ get_result()), chosen by a fixed function of the packet id
    Mixed,
}

#[derive(Clone, Debug, Serialize, Deserialize, PartialEq)]
pub struct RxSpec {
    pub kind: RxKind,
    /// dense/sparse switch-over of the decoder (hook H6); None = shipped default
    pub threshold: Option<u32>,
    /// a second receiver of another kind fed the identical operations, compared after every step
    pub mirror: Option<RxKind>,
}

#[derive(Clone, Copy, Debug, Serialize, Deserialize, PartialEq, Eq)]
#[serde(rename_all = "snake_case")]
pub enum Kernel {
    Auto,
    Portable,
    Ssse3,
    Avx2,
    Avx512,
}

#[derive(Clone, Copy, Debug, Serialize, Deserialize, PartialEq)]
pub struct Frame {
    pub replica: usize,
    pub sbn: u8,
    pub esi: u32,
}

#[derive(Clone, Debug, Serialize, Deserialize, PartialEq)]
#[serde(tag = "op", rename_all = "snake_case")]
pub enum Event {
    /// sender: source_packets() of one block
    Source { replica: usize, sbn: u8 },
    /// sender: repair_packets(s, n) of one block
    Window { replica: usize, sbn: u8, s: u32, n: u32 },
    /// sender: Encoder::get_encoded_packets(r) (replicas holding an Encoder only)
    Burst { replica: usize, r: u32 },
    /// network: these frames reach receiver rx together (one batch)
    Deliver { rx: usize, batch: Vec<Frame> },
    /// receiver application: query without new data (empty batch / get_result)
    Poke { rx: usize, sbn: u8 },
    Snapshot { rx: usize },
    Rollback { rx: usize },
    /// C08 checkpoint: compare with a fresh receiver fed the sorted distinct set
    Check { rx: usize },
    /// end of the fault-free final phase: every receiver must hold the object
    Final,
}

#[derive(Clone, Debug, Serialize, Deserialize, PartialEq)]
pub struct Setup {
    pub oti: Oti,
    pub data: DataSpec,
    pub replicas: Vec<Ctor>,
    pub receivers: Vec<RxSpec>,
    pub kernel: Kernel,
    /// what the sender's thread did *before* this transfer: blocks of other sizes it served
    /// (throw-away encoders; repair_packets(s, n) each). Anything the library keeps per thread or
    /// per process between objects is then in whatever state those left behind.
    #[serde(default, skip_serializing_if = "Vec::is_empty")]
    pub warm: Vec<Warm>,
    /// at the end, re-request a sample of the ledger from encoders built on a fresh OS thread
    /// (empty thread-local state) and compare
    #[serde(default, skip_serializing_if = "std::ops::Not::not")]
    pub fresh_check: bool,
}

#[derive(Clone, Copy, Debug, Serialize, Deserialize, PartialEq)]
pub struct Warm {
    pub k: u32,
    pub s: u32,
    pub n: u32,
}

fn cut_blocks(oti: &Oti, data: &[u8], ks: &[u32]) -> Vec<Vec<u8>> {
    let mut blocks_data: Vec<Vec<u8>> = vec![];
    let mut off = 0usize;
    for k in ks {
        let len = *k as usize * oti.t as usize;
        let end = (off + len).min(data.len());
        let mut b = if off < data.len() { data[off..end].to_vec() } else { vec![] };
        b.resize(len, 0);
        blocks_data.push(b);
        off += len;
    }
    blocks_data
}

#[derive(Clone, Debug, Serialize, Deserialize, PartialEq)]
pub struct Scenario {
    #[serde(flatten)]
    pub setup: Setup,
    pub events: Vec<Event>,
}

#[derive(Clone, Copy, Debug, Default)]
pub struct Oracles {
    pub c01: bool,
    pub c08: bool,
    pub c18: bool,
}

#[derive(Clone, Debug)]
pub struct Fail {
    pub property: &'static str,
    pub oracle: String,
    pub detail: String,
    pub at: usize,
}

/// Partition[I, J] of RFC 6330 4.4.1.2, written from the RFC.
pub fn rfc_partition(i: u64, j: u64) -> (u64, u64, u64, u64) {
    let il = i.div_ceil(j);
    let is = i / j;
    let jl = i - is * j;
    let js = j - jl;
    (il, is, jl, js)
}

/// number of source symbols of every block
pub fn block_sizes(oti: &Oti) -> Vec<u32> {
    let kt = oti.f.div_ceil(oti.t as u64);
    let (kl, ks, zl, zs) = rfc_partition(kt, oti.z as u64);
    let mut v = vec![kl as u32; zl as usize];
    v.extend(vec![ks as u32; zs as usize]);
    v
}

pub fn real_oti(o: &Oti) -> ObjectTransmissionInformation {
    ObjectTransmissionInformation::new(o.f, o.t, o.z, o.n, o.al)
}

#[cfg(feature = "rq-std")]
pub fn kernel_supported(k: Kernel) -> bool {
    use raptorq::verif_kernel::{supported, Level};
    supported(match k {
        Kernel::Auto => Level::Auto,
        Kernel::Portable => Level::Portable,
        Kernel::Ssse3 => Level::Ssse3,
        Kernel::Avx2 => Level::Avx2,
        Kernel::Avx512 => Level::Avx512,
    })
}
#[cfg(not(feature = "rq-std"))]
pub fn kernel_supported(k: Kernel) -> bool {
    matches!(k, Kernel::Auto | Kernel::Portable)
}

#[cfg(feature = "rq-std")]
pub fn set_kernel(k: Kernel) {
    use raptorq::verif_kernel::{set, Level};
    let k = if kernel_supported(k) { k } else { Kernel::Auto };
    set(match k {
        Kernel::Auto => Level::Auto,
        Kernel::Portable => Level::Portable,
        Kernel::Ssse3 => Level::Ssse3,
        Kernel::Avx2 => Level::Avx2,
        Kernel::Avx512 => Level::Avx512,
    });
}
#[cfg(not(feature = "rq-std"))]
pub fn set_kernel(_k: Kernel) {}

// ------------------------------------------------------------------------------------------------

struct Replica {
    blocks: Vec<SourceBlockEncoder>,
    encoder: Option<Encoder>,
    /// packets already produced by this replica (source packets per block, repair by id)
    source_cache: Vec<Option<Vec<EncodingPacket>>>,
    repair_cache: HashMap<(u8, u32), EncodingPacket>,
}

#[derive(Clone)]
enum RxImpl {
    Dec(Decoder, Ans),
    Add(Decoder),
    Mix(Decoder, Ans),
    Blk(Vec<SourceBlockDecoder>, Vec<Option<Vec<u8>>>),
}

#[derive(Clone, Debug, PartialEq)]
pub enum Ans {
    None,
    Some(Vec<u8>),
    Panic(String),
}

impl Ans {
    fn tag(&self) -> String {
        match self {
            Ans::None => "none".into(),
            Ans::Some(v) => format!("some[{}]", v.len()),
            Ans::Panic(p) => format!("panic[{p}]"),
        }
    }
}

#[derive(Clone)]
struct Shadow {
    have: Vec<BTreeSet<u32>>,
    first: Option<Vec<u8>>,
    block_first: Vec<Option<Vec<u8>>>,
    replicas_seen: Vec<u8>,
    /// order-independent hash of (block, esi) pairs received
    set_hash: u64,
}

struct Rx {
    spec: RxSpec,
    imp: RxImpl,
    mirror: Option<RxImpl>,
    sh: Shadow,
    snap: Option<Box<(RxImpl, Option<RxImpl>, Shadow)>>,
    follower: Option<RxImpl>,
    rolled_back: bool,
}

pub struct Transcript {
    pub digest: Digest,
    pub lines: Option<Vec<String>>,
}

impl Transcript {
    fn rec(&mut self, tag: &str, bytes: &[u8]) {
        self.digest.str(tag);
        self.digest.bytes(bytes);
        if let Some(l) = self.lines.as_mut() {
            let mut d = Digest::new();
            d.bytes(bytes);
            l.push(format!("{tag} len={} h={:016x}", bytes.len(), d.finish64()));
        }
    }
}

pub struct Exec {
    pub oti: Oti,
    cfg: ObjectTransmissionInformation,
    pub ks: Vec<u32>,
    data: Vec<u8>,
    replicas: Vec<Replica>,
    rxs: Vec<Rx>,
    ledger: HashMap<(u8, u32), Vec<u8>>,
    fresh_check: bool,
    kernel: Kernel,
    window_hits: HashMap<(u8, u32), u8>,
    pub oracles: Oracles,
    pub counters: Counters,
    pub states: HashSet64,
    pub transcript: Option<Transcript>,
    pub at: usize,
}

fn build_rx(kind: RxKind, threshold: Option<u32>, oti: &Oti, cfg: &ObjectTransmissionInformation, ks: &[u32]) -> RxImpl {
    match kind {
        RxKind::Decode | RxKind::Add | RxKind::Mixed => {
            let mut d = Decoder::new(*cfg);
            if let Some(t) = threshold {
                d.verif_set_sparse_threshold(t);
            }
            match kind {
                RxKind::Decode => RxImpl::Dec(d, Ans::None),
                RxKind::Add => RxImpl::Add(d),
                _ => RxImpl::Mix(d, Ans::None),
            }
        }
        RxKind::Block => {
            let mut v = vec![];
            for (b, k) in ks.iter().enumerate() {
                let mut d = SourceBlockDecoder::new(b as u8, cfg, *k as u64 * oti.t as u64);
                if let Some(t) = threshold {
                    d.verif_set_sparse_threshold(t);
                }
                v.push(d);
            }
            RxImpl::Blk(v, vec![None; ks.len()])
        }
    }
}

fn wire(p: &EncodingPacket) -> EncodingPacket {
    EncodingPacket::deserialize(&p.serialize())
}

impl RxImpl {
    /// Hand a batch to the receiver; returns its answer afterwards. Panics are caught by the caller.
    fn deliver(&mut self, batch: &[EncodingPacket], f: u64) -> Ans {
        match self {
            RxImpl::Dec(d, last) => {
                for p in batch {
                    *last = match d.decode(p.clone()) {
                        Some(v) => Ans::Some(v),
                        None => Ans::None,
                    };
                }
                last.clone()
            }
            RxImpl::Add(d) => {
                for p in batch {
                    d.add_new_packet(p.clone());
                }
                match d.get_result() {
                    Some(v) => Ans::Some(v),
                    None => Ans::None,
                }
            }
            RxImpl::Mix(d, last) => {
                for p in batch {
                    let id = p.payload_id();
                    let via_decode = (id.encoding_symbol_id() / 3 + id.source_block_number() as u32) % 2 == 0;
                    *last = if via_decode {
                        match d.decode(p.clone()) {
                            Some(v) => Ans::Some(v),
                            None => Ans::None,
                        }
                    } else {
                        d.add_new_packet(p.clone());
                        match d.get_result() {
                            Some(v) => Ans::Some(v),
                            None => Ans::None,
                        }
                    };
                }
                last.clone()
            }
            RxImpl::Blk(ds, res) => {
                // one decode(iter) call per block, in order of first appearance in the batch
                let mut order: Vec<u8> = vec![];
                for p in batch {
                    let b = p.payload_id().source_block_number();
                    if !order.contains(&b) {
                        order.push(b);
                    }
                }
                for b in order {
                    let group: Vec<EncodingPacket> = batch
                        .iter()
                        .filter(|p| p.payload_id().source_block_number() == b)
                        .cloned()
                        .collect();
                    let r = ds[b as usize].decode(group);
                    if r.is_some() || res[b as usize].is_none() {
                        res[b as usize] = r;
                    } else {
                        // an answer was withdrawn: keep that visible
                        res[b as usize] = None;
                    }
                }
                blk_answer(res, f)
            }
        }
    }

    fn poke(&mut self, sbn: u8, f: u64) -> Ans {
        match self {
            RxImpl::Dec(_, last) => last.clone(),
            RxImpl::Add(d) => match d.get_result() {
                Some(v) => Ans::Some(v),
                None => Ans::None,
            },
            RxImpl::Mix(d, last) => {
                *last = match d.get_result() {
                    Some(v) => Ans::Some(v),
                    None => Ans::None,
                };
                last.clone()
            }
            RxImpl::Blk(ds, res) => {
                let r = ds[sbn as usize].decode(std::iter::empty());
                res[sbn as usize] = r;
                blk_answer(res, f)
            }
        }
    }

    fn block_answer(&self, sbn: usize) -> Option<Option<Vec<u8>>> {
        match self {
            RxImpl::Blk(_, res) => Some(res[sbn].clone()),
            _ => None,
        }
    }
}

fn blk_answer(res: &[Option<Vec<u8>>], f: u64) -> Ans {
    if res.iter().all(|r| r.is_some()) {
        let mut out = vec![];
        for r in res.iter().flatten() {
            out.extend_from_slice(r);
        }
        out.truncate(f as usize);
        Ans::Some(out)
    } else {
        Ans::None
    }
}

fn other_kind(k: RxKind, salt: usize) -> RxKind {
    let all = [RxKind::Decode, RxKind::Add, RxKind::Block, RxKind::Mixed];
    let others: Vec<RxKind> = all.iter().copied().filter(|x| *x != k).collect();
    others[salt % others.len()]
}

impl Exec {
    pub fn new(setup: &Setup, oracles: Oracles, transcript: bool, verbose: bool) -> Result<Exec, Fail> {
        let oti = setup.oti;
        let data = setup.data.bytes(oti.f as usize);
        set_kernel(setup.kernel);
        let built = guarded(|| {
            let cfg = real_oti(&oti);
            let ks = block_sizes(&oti);
            // earlier work of this sender thread (see Setup::warm)
            for w in &setup.warm {
                // (the configuration constructor has its own limit check: a block encoder is handed
                // the symbol size only, as in the crate's own benchmarks)
                let wcfg = if w.k > 56403 { ObjectTransmissionInformation::new(0, 1, 0, 1, 1) } else { ObjectTransmissionInformation::new(w.k as u64, 1, 1, 1, 1) };
                let wdata: Vec<u8> = (0..w.k).map(|i| (i * 7 + 1) as u8).collect();
                if w.k > 56403 {
                    // a request the library rejects (one symbol more than supported): the sender
                    // thread survives the panic and carries on; nothing later may be affected
                    let _ = guarded(|| SourceBlockEncoder::new(0, &wcfg, &wdata));
                    continue;
                }
                let e = SourceBlockEncoder::new(0, &wcfg, &wdata);
                let _ = e.repair_packets(w.s, w.n);
            }
            // block data with zero padding, cut by the harness itself
            let blocks_data = cut_blocks(&oti, &data, &ks);
            let mut replicas = vec![];
            for c in &setup.replicas {
                let r = match c {
                    Ctor::New => Replica {
                        blocks: blocks_data
                            .iter()
                            .enumerate()
                            .map(|(b, d)| SourceBlockEncoder::new(b as u8, &cfg, d))
                            .collect(),
                        encoder: None,
                        source_cache: vec![],
                        repair_cache: HashMap::new(),
                    },
                    Ctor::Plan => Replica {
                        blocks: blocks_data
                            .iter()
                            .enumerate()
                            .map(|(b, d)| {
                                let plan = SourceBlockEncodingPlan::generate(ks[b] as u16);
                                SourceBlockEncoder::with_encoding_plan(b as u8, &cfg, d, &plan)
                            })
                            .collect(),
                        encoder: None,
                        source_cache: vec![],
                        repair_cache: HashMap::new(),
                    },
                    Ctor::PlanShared => {
                        let mut plans: HashMap<u32, SourceBlockEncodingPlan> = HashMap::new();
                        Replica {
                            blocks: blocks_data
                                .iter()
                                .enumerate()
                                .map(|(b, d)| {
                                    let plan = plans
                                        .entry(ks[b])
                                        .or_insert_with(|| SourceBlockEncodingPlan::generate(ks[b] as u16));
                                    SourceBlockEncoder::with_encoding_plan(b as u8, &cfg, d, plan)
                                })
                                .collect(),
                            encoder: None,
                            source_cache: vec![],
                            repair_cache: HashMap::new(),
                        }
                    }
                    Ctor::EncoderNew => {
                        let e = Encoder::new(&data, cfg);
                        Replica { blocks: e.get_block_encoders().clone(), encoder: Some(e), source_cache: vec![], repair_cache: HashMap::new() }
                    }
                    Ctor::WithDefaults { mtu } => {
                        let e = Encoder::with_defaults(&data, *mtu);
                        Replica { blocks: e.get_block_encoders().clone(), encoder: Some(e), source_cache: vec![], repair_cache: HashMap::new() }
                    }
                    Ctor::Unplanned { threshold } => Replica {
                        blocks: blocks_data
                            .iter()
                            .enumerate()
                            .map(|(b, d)| SourceBlockEncoder::verif_new_unplanned(b as u8, &cfg, d, *threshold))
                            .collect(),
                        encoder: None,
                        source_cache: vec![],
                        repair_cache: HashMap::new(),
                    },
                };
                replicas.push(r);
            }
            let mut rxs = vec![];
            // receivers learn the configuration from the wire: the 12-byte OTI, serialised by the
            // sender and parsed by the receiver
            let cfg_rx = ObjectTransmissionInformation::deserialize(&cfg.serialize());
            for (i, spec) in setup.receivers.iter().enumerate() {
                let cfg = cfg_rx;
                let imp = build_rx(spec.kind, spec.threshold, &oti, &cfg, &ks);
                let mirror = spec.mirror.map(|k| build_rx(k, if i % 2 == 0 { None } else { spec.threshold }, &oti, &cfg, &ks));
                rxs.push(Rx {
                    spec: spec.clone(),
                    imp,
                    mirror,
                    sh: Shadow {
                        have: vec![BTreeSet::new(); ks.len()],
                        first: None,
                        block_first: vec![None; ks.len()],
                        replicas_seen: vec![0; ks.len()],
                        set_hash: 0,
                    },
                    snap: None,
                    follower: None,
                    rolled_back: false,
                });
            }
            (cfg, ks, replicas, rxs)
        });
        let (cfg, ks, replicas, rxs) = match built {
            Ok(x) => x,
            Err(p) => {
                return Err(Fail {
                    // attributed to the property whose check is running
                    property: if oracles.c18 { "C18" } else if oracles.c08 { "C08" } else { "C01" },
                    oracle: format!("setup-panic:{}", panic_class(&p)),
                    detail: format!("building encoders/decoders panicked: {p}"),
                    at: 0,
                })
            }
        };
        let mut ex = Exec {
            oti,
            cfg,
            ks,
            data,
            replicas,
            rxs,
            ledger: HashMap::new(),
            window_hits: HashMap::new(),
            fresh_check: setup.fresh_check,
            kernel: setup.kernel,
            oracles,
            counters: Counters::default(),
            states: HashSet64::default(),
            transcript: if transcript {
                Some(Transcript { digest: Digest::new(), lines: if verbose { Some(vec![]) } else { None } })
            } else {
                None
            },
            at: 0,
        };
        if let Some(t) = ex.transcript.as_mut() {
            let ser = ex.cfg.serialize();
            t.rec("oti", &ser);
            // a replica that derived its own configuration must have derived this one
            for r in ex.replicas.iter() {
                if let Some(e) = &r.encoder {
                    if e.get_config() != ex.cfg {
                        t.rec("replica.config-mismatch", &e.get_config().serialize());
                    }
                }
            }
        }
        if ex.oracles.c18 || ex.oracles.c01 {
            for (i, r) in ex.replicas.iter().enumerate() {
                if let Some(e) = &r.encoder {
                    if e.get_config() != ex.cfg {
                        return Err(ex.fail("C01", "replica-config".into(), format!("replica {i} reports config {:?}, expected {:?}", e.get_config(), ex.cfg)));
                    }
                }
                if r.blocks.len() != ex.ks.len() {
                    return Err(ex.fail("C18", "block-count".into(), format!("replica {i} has {} block encoders, expected {}", r.blocks.len(), ex.ks.len())));
                }
            }
        }
        Ok(ex)
    }

    fn fail(&self, property: &'static str, oracle: String, detail: String) -> Fail {
        Fail { property, oracle, detail, at: self.at }
    }

    pub fn nblocks(&self) -> usize {
        self.ks.len()
    }
    pub fn nrx(&self) -> usize {
        self.rxs.len()
    }
    pub fn nreplicas(&self) -> usize {
        self.replicas.len()
    }
    pub fn replica_has_encoder(&self, r: usize) -> bool {
        self.replicas[r].encoder.is_some()
    }
    /// blocks that receiver rx does not hold yet, judged from what it answered (application view)
    pub fn rx_done(&self, rx: usize) -> bool {
        self.rxs[rx].sh.first.is_some()
    }
    pub fn rx_block_have(&self, rx: usize, sbn: usize) -> usize {
        self.rxs[rx].sh.have[sbn].len()
    }
    pub fn rx_block_has_all_source(&self, rx: usize, sbn: usize) -> bool {
        let k = self.ks[sbn];
        self.rxs[rx].sh.have[sbn].range(0..k).count() as u32 == k
    }
    pub fn rx_has_snapshot(&self, rx: usize) -> bool {
        self.rxs[rx].snap.is_some()
    }
    pub fn rx_block_done(&self, rx: usize, sbn: usize) -> bool {
        // the application can only observe per-block completion on block-level receivers; for the
        // others we use "enough symbols" as a sender-side heuristic
        match self.rxs[rx].imp.block_answer(sbn) {
            Some(r) => r.is_some(),
            None => self.rx_done(rx) || self.rxs[rx].sh.have[sbn].len() as u32 >= self.ks[sbn] + 2,
        }
    }

    /// the packet a replica produces for (sbn, esi)
    fn packet(&mut self, f: &Frame) -> EncodingPacket {
        let k = self.ks[f.sbn as usize];
        let rep = &mut self.replicas[f.replica];
        if rep.source_cache.len() != rep.blocks.len() {
            rep.source_cache = vec![None; rep.blocks.len()];
        }
        if f.esi < k {
            if rep.source_cache[f.sbn as usize].is_none() {
                rep.source_cache[f.sbn as usize] = Some(rep.blocks[f.sbn as usize].source_packets());
            }
            rep.source_cache[f.sbn as usize].as_ref().unwrap()[f.esi as usize].clone()
        } else {
            if let Some(p) = rep.repair_cache.get(&(f.sbn, f.esi)) {
                return p.clone();
            }
            let p = rep.blocks[f.sbn as usize].repair_packets(f.esi - k, 1).swap_remove(0);
            rep.repair_cache.insert((f.sbn, f.esi), p.clone());
            p
        }
    }

    fn ledger_check(&mut self, route: &str, p: &EncodingPacket) -> Result<(), Fail> {
        let key = (p.payload_id().source_block_number(), p.payload_id().encoding_symbol_id());
        if p.data().len() != self.oti.t as usize {
            return Err(self.fail("C18", "payload-size".into(), format!("{route}: payload of {key:?} has {} bytes, symbol size is {}", p.data().len(), self.oti.t)));
        }
        match self.ledger.get(&key) {
            Some(old) => {
                self.counters.inc("probe_esi_seen_through_two_routes");
                if old.as_slice() != p.data() {
                    return Err(self.fail(
                        "C18",
                        "ledger-mismatch".into(),
                        format!("{route}: packet {key:?} differs from the payload sent earlier for the same id"),
                    ));
                }
            }
            None => {
                self.ledger.insert(key, p.data().to_vec());
            }
        }
        Ok(())
    }

    fn rec_packets(&mut self, tag: &str, ps: &[EncodingPacket]) {
        if let Some(t) = self.transcript.as_mut() {
            for p in ps {
                t.rec(tag, &p.serialize());
            }
        }
    }

    pub fn apply(&mut self, ev: &Event) -> Result<(), Fail> {
        let r = self.apply_inner(ev);
        self.at += 1;
        r
    }

    fn sender_panic(&self, what: &str, p: String) -> Fail {
        // attributed to the property whose check is running
        let prop = if self.oracles.c18 {
            "C18"
        } else if self.oracles.c08 {
            "C08"
        } else {
            "C01"
        };
        self.fail(prop, format!("sender-panic:{}", panic_class(&p)), format!("{what} panicked: {p}"))
    }

    fn apply_inner(&mut self, ev: &Event) -> Result<(), Fail> {
        match ev {
            Event::Source { replica, sbn } => {
                if *replica >= self.replicas.len() || *sbn as usize >= self.ks.len() {
                    return Ok(());
                }
                let k = self.ks[*sbn as usize];
                let ps = match guarded(|| self.replicas[*replica].blocks[*sbn as usize].source_packets()) {
                    Ok(v) => v,
                    Err(p) => {
                        if self.transcript.is_some() {
                            self.transcript.as_mut().unwrap().rec("source.panic", panic_class(&p).as_bytes());
                            return Ok(());
                        }
                        return Err(self.sender_panic("source_packets", p));
                    }
                };
                self.rec_packets("source", &ps);
                if self.oracles.c18 {
                    if ps.len() != k as usize {
                        return Err(self.fail("C18", "source-shape".into(), format!("block {sbn}: {} source packets, K = {k}", ps.len())));
                    }
                    for (i, p) in ps.iter().enumerate() {
                        if p.payload_id().source_block_number() != *sbn || p.payload_id().encoding_symbol_id() != i as u32 {
                            return Err(self.fail("C18", "source-shape".into(), format!("block {sbn}: source packet #{i} carries id {:?}", p.payload_id())));
                        }
                        self.ledger_check("source_packets", p)?;
                    }
                }
                Ok(())
            }
            Event::Window { replica, sbn, s, n } => {
                if *replica >= self.replicas.len() || *sbn as usize >= self.ks.len() {
                    return Ok(());
                }
                let k = self.ks[*sbn as usize];
                if k as u64 + *s as u64 + *n as u64 > 1 << 24 {
                    return Ok(());
                }
                let ps = match guarded(|| self.replicas[*replica].blocks[*sbn as usize].repair_packets(*s, *n)) {
                    Ok(v) => v,
                    Err(p) => {
                        if self.transcript.is_some() {
                            self.transcript.as_mut().unwrap().rec("window.panic", panic_class(&p).as_bytes());
                            return Ok(());
                        }
                        return Err(self.sender_panic(&format!("repair_packets({s},{n}) on a block of {k} symbols"), p));
                    }
                };
                self.rec_packets("window", &ps);
                if self.oracles.c18 {
                    self.counters.inc("windows");
                    if k + s + n == 1 << 24 {
                        self.counters.inc("probe_window_ends_at_last_esi");
                    }
                    if *n >= 1000 {
                        self.counters.inc("probe_bulk_window");
                    }
                    if *n == 0 {
                        self.counters.inc("probe_empty_window");
                    }
                    if ps.len() != *n as usize {
                        return Err(self.fail("C18", "window-shape".into(), format!("repair_packets({s},{n}) returned {} packets", ps.len())));
                    }
                    for (i, p) in ps.iter().enumerate() {
                        let want = k + s + i as u32;
                        if p.payload_id().source_block_number() != *sbn || p.payload_id().encoding_symbol_id() != want {
                            return Err(self.fail("C18", "window-shape".into(), format!("repair_packets({s},{n})[{i}] carries id {:?}, expected ({sbn},{want})", p.payload_id())));
                        }
                        let hits = self.window_hits.entry((*sbn, want)).or_insert(0);
                        *hits = hits.saturating_add(1);
                        if *hits == 2 {
                            self.counters.inc("window_overlap");
                        }
                        self.ledger_check("repair window", p)?;
                    }
                    // the same packets requested one at a time: all of a small window; of a large one
                    // the ends, the middle, every position within 12 ids of a multiple of 2^16 of the
                    // encoding or of the internal symbol id, and (every 8th bulk window) everything
                    let kp = crate::rank::params(k).kp;
                    let idx: Vec<usize> = if ps.len() <= 6 {
                        (0..ps.len()).collect()
                    } else if ps.len() >= 1000 && (*s as usize + ps.len()) % 8 == 0 {
                        (0..ps.len()).collect()
                    } else {
                        let mut v = vec![0, 1, ps.len() / 2, ps.len() - 2, ps.len() - 1];
                        for i in 0..ps.len() {
                            let esi = k as u64 + *s as u64 + i as u64;
                            let isi = kp as u64 + *s as u64 + i as u64;
                            let near = |x: u64| x % 65536 < 12 || x % 65536 >= 65536 - 12;
                            if near(esi) || near(isi) {
                                v.push(i);
                            }
                        }
                        v.sort_unstable();
                        v.dedup();
                        v
                    };
                    for i in idx {
                        let single = guarded(|| self.replicas[*replica].blocks[*sbn as usize].repair_packets(s + i as u32, 1));
                        match single {
                            Ok(v) => {
                                if v.len() != 1 || v[0] != ps[i] {
                                    return Err(self.fail("C18", "window-vs-single".into(), format!("repair_packets({s},{n})[{i}] differs from repair_packets({},1)", s + i as u32)));
                                }
                            }
                            Err(p) => return Err(self.sender_panic("single repair packet", p)),
                        }
                    }
                }
                Ok(())
            }
            Event::Burst { replica, r } => {
                if *replica >= self.replicas.len() {
                    return Ok(());
                }
                if self.replicas[*replica].encoder.is_none() {
                    if self.transcript.is_none() {
                        return Ok(());
                    }
                    // transcript mode (C07): a replica built block by block emits the same list
                    // through the per-block interface
                    let ps = guarded(|| {
                        let mut v = vec![];
                        for b in &self.replicas[*replica].blocks {
                            v.extend(b.source_packets());
                            v.extend(b.repair_packets(0, *r));
                        }
                        v
                    });
                    match ps {
                        Ok(v) => self.rec_packets("burst", &v),
                        Err(p) => self.transcript.as_mut().unwrap().rec("burst.panic", panic_class(&p).as_bytes()),
                    }
                    return Ok(());
                }
                let ps = match guarded(|| self.replicas[*replica].encoder.as_ref().unwrap().get_encoded_packets(*r)) {
                    Ok(v) => v,
                    Err(p) => {
                        if self.transcript.is_some() {
                            self.transcript.as_mut().unwrap().rec("burst.panic", panic_class(&p).as_bytes());
                            return Ok(());
                        }
                        return Err(self.sender_panic("get_encoded_packets", p));
                    }
                };
                self.rec_packets("burst", &ps);
                if self.oracles.c18 {
                    self.counters.inc("bursts");
                    let mut want: Vec<(u8, u32)> = vec![];
                    for (b, k) in self.ks.iter().enumerate() {
                        for e in 0..(*k + *r) {
                            want.push((b as u8, e));
                        }
                    }
                    let got: Vec<(u8, u32)> = ps.iter().map(|p| (p.payload_id().source_block_number(), p.payload_id().encoding_symbol_id())).collect();
                    if got != want {
                        let pos = got.iter().zip(want.iter()).position(|(a, b)| a != b).unwrap_or(got.len().min(want.len()));
                        return Err(self.fail("C18", "burst-shape".into(), format!("get_encoded_packets({r}): {} packets, expected {}; first difference at #{pos}: got {:?} expected {:?}", got.len(), want.len(), got.get(pos), want.get(pos))));
                    }
                    for p in &ps {
                        self.ledger_check("get_encoded_packets", p)?;
                    }
                }
                Ok(())
            }
            Event::Deliver { rx, batch } => self.deliver(*rx, batch),
            Event::Poke { rx, sbn } => {
                if *rx >= self.rxs.len() || *sbn as usize >= self.ks.len() {
                    return Ok(());
                }
                let f = self.oti.f;
                let ans = match guarded(|| self.rxs[*rx].imp.poke(*sbn, f)) {
                    Ok(a) => a,
                    Err(p) => Ans::Panic(panic_class(&p)),
                };
                let m = self.rxs[*rx].mirror.is_some();
                let mans = if m {
                    Some(match guarded(|| self.rxs[*rx].mirror.as_mut().unwrap().poke(*sbn, f)) {
                        Ok(a) => a,
                        Err(p) => Ans::Panic(panic_class(&p)),
                    })
                } else {
                    None
                };
                let fol = if self.rxs[*rx].follower.is_some() {
                    Some(match guarded(|| self.rxs[*rx].follower.as_mut().unwrap().poke(*sbn, f)) {
                        Ok(a) => a,
                        Err(p) => Ans::Panic(panic_class(&p)),
                    })
                } else {
                    None
                };
                self.after_step(*rx, ans, mans, fol, "poke")
            }
            Event::Snapshot { rx } => {
                if *rx >= self.rxs.len() {
                    return Ok(());
                }
                let r = &mut self.rxs[*rx];
                r.snap = Some(Box::new((r.imp.clone(), r.mirror.clone(), r.sh.clone())));
                r.follower = Some(r.imp.clone());
                self.counters.inc("snapshot");
                Ok(())
            }
            Event::Rollback { rx } => {
                if *rx >= self.rxs.len() {
                    return Ok(());
                }
                let r = &mut self.rxs[*rx];
                if let Some(s) = r.snap.take() {
                    let was_done = r.sh.first.is_some();
                    let (imp, mirror, sh) = *s;
                    r.imp = imp;
                    r.mirror = mirror;
                    r.sh = sh;
                    r.follower = None;
                    r.rolled_back = true;
                    self.counters.inc("rollback");
                    if was_done && self.rxs[*rx].sh.first.is_none() {
                        self.counters.inc("probe_rollback_across_completion");
                    }
                }
                Ok(())
            }
            Event::Check { rx } => {
                if *rx >= self.rxs.len() || !self.oracles.c08 {
                    return Ok(());
                }
                self.set_determinism_check(*rx)
            }
            Event::Final => {
                if self.oracles.c18 && self.fresh_check {
                    self.fresh_thread_check()?;
                }
                if self.oracles.c01 {
                    for i in 0..self.rxs.len() {
                        let all_src = (0..self.ks.len()).all(|b| self.rx_block_has_all_source(i, b));
                        if all_src && self.rxs[i].sh.first.is_none() {
                            return Err(self.fail("C01", "final-none".into(), format!("receiver {i} holds every source symbol of every block after the fault-free phase but never answered")));
                        }
                    }
                }
                Ok(())
            }
        }
    }

    /// C18, "however it is requested": a sample of everything this sender emitted is requested once
    /// more from encoders built on a fresh OS thread (no thread-local history) and must be identical.
    fn fresh_thread_check(&mut self) -> Result<(), Fail> {
        let mut keys: Vec<(u8, u32)> = self.ledger.keys().copied().collect();
        keys.sort();
        let step = keys.len().div_ceil(96).max(1);
        let keys: Vec<(u8, u32)> = keys.into_iter().step_by(step).collect();
        let (oti, cfg, ks, kernel) = (self.oti, self.cfg, self.ks.clone(), self.kernel);
        let blocks = cut_blocks(&oti, &self.data, &ks);
        let keys2 = keys.clone();
        let handle = std::thread::spawn(move || {
            guarded(move || {
                set_kernel(kernel);
                let encs: Vec<SourceBlockEncoder> = blocks.iter().enumerate().map(|(b, d)| SourceBlockEncoder::new(b as u8, &cfg, d)).collect();
                let mut out: Vec<Vec<u8>> = vec![];
                let mut srcs: Vec<Option<Vec<EncodingPacket>>> = vec![None; encs.len()];
                for (sbn, esi) in keys2 {
                    let b = sbn as usize;
                    let k = ks[b];
                    if esi < k {
                        let sp = srcs[b].get_or_insert_with(|| encs[b].source_packets());
                        out.push(sp[esi as usize].data().to_vec());
                    } else {
                        out.push(encs[b].repair_packets(esi - k, 1).swap_remove(0).data().to_vec());
                    }
                }
                out
            })
        });
        let got = match handle.join() {
            Ok(Ok(g)) => g,
            Ok(Err(p)) => return Err(self.sender_panic("re-requesting packets on a fresh thread", p)),
            Err(_) => return Err(self.fail("C18", "fresh-thread-panic".into(), "the fresh sender thread died".into())),
        };
        self.counters.add("fresh_thread_rechecks", keys.len() as u64);
        for ((sbn, esi), payload) in keys.iter().zip(got) {
            if self.ledger.get(&(*sbn, *esi)) != Some(&payload) {
                return Err(self.fail(
                    "C18",
                    "history-dependent".into(),
                    format!("packet (SBN {sbn}, ESI {esi}) as emitted by this sender differs from the same packet requested from an encoder built on a fresh thread: what was served depends on what the thread served before"),
                ));
            }
        }
        Ok(())
    }

    fn current_answer(&self, rx: usize) -> Ans {
        match &self.rxs[rx].imp {
            RxImpl::Dec(_, last) => last.clone(),
            RxImpl::Add(d) => match d.get_result() {
                Some(v) => Ans::Some(v),
                None => Ans::None,
            },
            RxImpl::Mix(_, last) => last.clone(),
            RxImpl::Blk(_, res) => blk_answer(res, self.oti.f),
        }
    }

    fn deliver(&mut self, rx: usize, batch: &[Frame]) -> Result<(), Fail> {
        if rx >= self.rxs.len() {
            return Ok(());
        }
        let frames: Vec<Frame> = batch
            .iter()
            .copied()
            .filter(|f| f.replica < self.replicas.len() && (f.sbn as usize) < self.ks.len() && f.esi < (1 << 24))
            .collect();
        if frames.is_empty() {
            return Ok(());
        }
        // produce the packets (sender side) and put them on the wire
        let mut packets = vec![];
        for f in &frames {
            match guarded(|| wire(&self.packet(f))) {
                Ok(p) => packets.push(p),
                Err(p) => {
                    if let Some(t) = self.transcript.as_mut() {
                        t.rec("packet.panic", panic_class(&p).as_bytes());
                        return Ok(());
                    }
                    return Err(self.fail("C01", format!("encode-panic:{}", panic_class(&p)), format!("producing packet {f:?} panicked: {p}")));
                }
            }
        }
        if self.oracles.c18 {
            for p in packets.clone() {
                self.ledger_check("delivered frame", &p)?;
            }
        }
        // fault accounting + shadow state
        if frames.len() >= 2 {
            self.counters.inc("batch");
        }
        let k_of = self.ks.clone();
        let was_done = self.rxs[rx].sh.first.is_some();
        {
            let mut crossed = false;
            let r = &mut self.rxs[rx];
            let mut prev_sbn: Option<u8> = None;
            for f in &frames {
                let b = f.sbn as usize;
                if let Some(p) = prev_sbn {
                    if p != f.sbn {
                        self.counters.inc("interleave");
                    }
                }
                prev_sbn = Some(f.sbn);
                let before = r.sh.have[b].len() as u32;
                let fresh = r.sh.have[b].insert(f.esi);
                if fresh {
                    let mut x = ((b as u64) << 32 | f.esi as u64) ^ ((k_of[b] as u64) << 40);
                    r.sh.set_hash ^= crate::prng::splitmix64(&mut x);
                }
                if !fresh {
                    self.counters.inc("duplicate_delivered");
                    if f.esi < k_of[b] {
                        let src = r.sh.have[b].range(0..k_of[b]).count() as u32;
                        if src == k_of[b] - 1 && before == src {
                            self.counters.inc("probe_dup_source_at_k_minus_1");
                        }
                    }
                    if before + 1 == k_of[b] {
                        self.counters.inc("probe_dup_as_kth_packet");
                    }
                } else if before + 1 == k_of[b] {
                    crossed = true;
                }
                let bit = 1u8 << (f.replica.min(7));
                if r.sh.replicas_seen[b] != 0 && r.sh.replicas_seen[b] & bit == 0 {
                    self.counters.inc("replica_mix");
                }
                r.sh.replicas_seen[b] |= bit;
                if f.esi >= 1 << 23 {
                    self.counters.inc("probe_esi_above_2_23");
                }
            }
            if crossed && frames.len() >= 2 {
                self.counters.inc("probe_batch_crosses_k");
            }
            // a block-level receiver whose next attempt sees >= K + H symbols with a source symbol
            // missing runs the GF(2)-only attempt first
            if matches!(r.imp, RxImpl::Blk(..)) && frames.len() >= 2 {
                for b in 0..k_of.len() {
                    let pr = crate::rank::params(k_of[b]);
                    let n = r.sh.have[b].len() as u32;
                    let src = r.sh.have[b].range(0..k_of[b]).count() as u32;
                    if frames.iter().any(|f| f.sbn as usize == b) && n >= k_of[b] + pr.h && src < k_of[b] && r.sh.block_first[b].is_none() {
                        self.counters.inc("probe_gf2_only_attempt_eligible");
                    }
                }
            }
            if was_done {
                self.counters.inc("redeliver_after_done");
            }
        }
        let f = self.oti.f;
        let ans = match guarded(|| self.rxs[rx].imp.deliver(&packets, f)) {
            Ok(a) => a,
            Err(p) => Ans::Panic(p),
        };
        let mans = if self.rxs[rx].mirror.is_some() {
            Some(match guarded(|| self.rxs[rx].mirror.as_mut().unwrap().deliver(&packets, f)) {
                Ok(a) => a,
                Err(p) => Ans::Panic(p),
            })
        } else {
            None
        };
        let fol = if self.rxs[rx].follower.is_some() {
            Some(match guarded(|| self.rxs[rx].follower.as_mut().unwrap().deliver(&packets, f)) {
                Ok(a) => a,
                Err(p) => Ans::Panic(p),
            })
        } else {
            None
        };
        self.after_step(rx, ans, mans, fol, "deliver")
    }

    fn after_step(&mut self, rx: usize, ans: Ans, mirror: Option<Ans>, follower: Option<Ans>, what: &str) -> Result<(), Fail> {
        // state hash: (block sizes, received sets) at this query point
        if self.rxs[rx].sh.set_hash != 0 {
            self.states.insert(self.rxs[rx].sh.set_hash ^ (self.ks.len() as u64).wrapping_mul(0x9E37_79B9_7F4A_7C15));
        }
        if let Some(t) = self.transcript.as_mut() {
            match &ans {
                Ans::None => t.rec(&format!("rx{rx}.none"), &[]),
                Ans::Some(v) => t.rec(&format!("rx{rx}.some"), v),
                Ans::Panic(p) => t.rec(&format!("rx{rx}.panic"), panic_class(p).as_bytes()),
            }
            if let Some(m) = &mirror {
                match m {
                    Ans::None => t.rec(&format!("rx{rx}m.none"), &[]),
                    Ans::Some(v) => t.rec(&format!("rx{rx}m.some"), v),
                    Ans::Panic(p) => t.rec(&format!("rx{rx}m.panic"), panic_class(p).as_bytes()),
                }
            }
        }
        let all_src = (0..self.ks.len()).all(|b| self.rx_block_has_all_source(rx, b));
        // ---- C01
        if self.oracles.c01 {
            match &ans {
                Ans::Panic(p) => {
                    return Err(self.fail("C01", format!("panic:{}", panic_class(p)), format!("receiver {rx} ({:?}) panicked on encoder-produced packets during {what}: {p}", self.rxs[rx].spec.kind)));
                }
                Ans::Some(v) => {
                    if v.len() as u64 != self.oti.f {
                        return Err(self.fail("C01", "wrong-length".into(), format!("receiver {rx} returned {} bytes, transfer length is {}", v.len(), self.oti.f)));
                    }
                    if *v != self.data {
                        let pos = v.iter().zip(self.data.iter()).position(|(a, b)| a != b).unwrap_or(0);
                        return Err(self.fail("C01", "wrong-bytes".into(), format!("receiver {rx} returned an object that differs from the original at byte {pos} (got {:02x?}, original {:02x?})", &v[pos..(pos + 8).min(v.len())], &self.data[pos..(pos + 8).min(self.data.len())])));
                    }
                }
                Ans::None => {
                    if all_src {
                        return Err(self.fail("C01", "all-source-none".into(), format!("receiver {rx} ({:?}) has every source packet of every block and answers 'not yet'", self.rxs[rx].spec.kind)));
                    }
                }
            }
            // block-level receivers: every block answer is the block itself
            if let RxImpl::Blk(_, res) = &self.rxs[rx].imp {
                let mut off = 0usize;
                for (b, r) in res.iter().enumerate() {
                    let len = self.ks[b] as usize * self.oti.t as usize;
                    if let Some(v) = r {
                        let end = (off + len).min(self.data.len());
                        let mut want = if off < self.data.len() { self.data[off..end].to_vec() } else { vec![] };
                        want.resize(len, 0);
                        if *v != want {
                            return Err(self.fail("C01", "wrong-block".into(), format!("receiver {rx}: block {b} decoded to {} bytes that differ from the (zero-padded) source block", v.len())));
                        }
                    } else if self.rx_block_has_all_source(rx, b) {
                        return Err(self.fail("C01", "all-source-none".into(), format!("receiver {rx}: block {b} has all {} source symbols and answers None", self.ks[b])));
                    }
                    off += len;
                }
            }
        }
        // probes shared by all
        if let Ans::Some(_) = &ans {
            if self.rxs[rx].sh.first.is_none() {
                let sh = &self.rxs[rx].sh;
                let all_repair = (0..self.ks.len()).any(|b| sh.have[b].range(0..self.ks[b]).count() == 0);
                if all_repair {
                    self.counters.inc("probe_block_decoded_from_repair_only");
                }
                if (0..self.ks.len()).any(|b| sh.have[b].len() as u32 == self.ks[b] && !self.rx_block_has_all_source(rx, b)) {
                    self.counters.inc("probe_decoded_at_exactly_k");
                }
                if !all_src {
                    self.counters.inc("probe_completed_by_solving");
                }
            }
        } else if ans == Ans::None {
            let sh = &self.rxs[rx].sh;
            if (0..self.ks.len()).all(|b| sh.have[b].len() as u32 >= self.ks[b]) && self.ks.len() == 1 {
                self.counters.inc("probe_rank_deficient_at_ge_k");
            }
        }
        // ---- C08
        if self.oracles.c08 {
            if let Ans::Panic(p) = &ans {
                return Err(self.fail("C08", format!("panic:{}", panic_class(p)), format!("receiver {rx} panicked during {what}: {p}")));
            }
            if let Some(first) = &self.rxs[rx].sh.first {
                if ans != Ans::Some(first.clone()) {
                    return Err(self.fail("C08", "sticky".into(), format!("receiver {rx} ({:?}) answered {} after it had already returned the object ({} bytes)", self.rxs[rx].spec.kind, ans.tag(), first.len())));
                }
            }
            // block level stickiness
            if let RxImpl::Blk(_, res) = &self.rxs[rx].imp {
                for (b, r) in res.iter().enumerate() {
                    if let Some(first) = &self.rxs[rx].sh.block_first[b] {
                        if r.as_ref() != Some(first) {
                            return Err(self.fail("C08", "sticky-block".into(), format!("receiver {rx}: block {b} answered differently after it had been returned once")));
                        }
                    }
                }
            }
            if let Some(m) = &mirror {
                let same = match (m, &ans) {
                    (Ans::Some(a), Ans::Some(b)) => a == b,
                    (Ans::None, Ans::None) => true,
                    _ => false,
                };
                if !same {
                    return Err(self.fail("C08", "interfaces-disagree".into(), format!("receiver {rx}: {:?} interface answers {}, {:?} interface fed the same packets answers {}", self.rxs[rx].spec.kind, ans.tag(), self.rxs[rx].spec.mirror, m.tag())));
                }
            }
            if let Some(fo) = &follower {
                if *fo != ans {
                    return Err(self.fail("C08", "clone-diverged".into(), format!("receiver {rx}: original answers {}, its clone fed the same suffix answers {}", ans.tag(), fo.tag())));
                }
                self.counters.inc("probe_clone_followed");
            }
        }
        // record first answers
        if let Ans::Some(v) = &ans {
            if self.rxs[rx].sh.first.is_none() {
                self.rxs[rx].sh.first = Some(v.clone());
            }
        }
        if let RxImpl::Blk(_, res) = &self.rxs[rx].imp {
            let res = res.clone();
            for (b, r) in res.into_iter().enumerate() {
                if self.rxs[rx].sh.block_first[b].is_none() {
                    self.rxs[rx].sh.block_first[b] = r;
                }
            }
        }
        Ok(())
    }

    fn set_determinism_check(&mut self, rx: usize) -> Result<(), Fail> {
        let kind = other_kind(self.rxs[rx].spec.kind, self.at);
        let cur = self.current_answer(rx);
        let have = self.rxs[rx].sh.have.clone();
        // the sorted distinct set; packets taken from replica 0 (the ledger oracle of C18 checks that
        // replicas agree; here any replica is a legitimate producer)
        let mut frames: Vec<Frame> = vec![];
        for (b, set) in have.iter().enumerate() {
            for e in set {
                frames.push(Frame { replica: 0, sbn: b as u8, esi: *e });
            }
        }
        if frames.is_empty() {
            return Ok(());
        }
        let f = self.oti.f;
        let thr = self.rxs[rx].spec.threshold;
        let res = guarded(|| {
            let mut fresh = build_rx(kind, thr, &self.oti, &self.cfg, &self.ks);
            let mut ans = Ans::None;
            let packets: Vec<EncodingPacket> = frames.iter().map(|fr| wire(&self.packet(fr))).collect();
            if kind == RxKind::Block {
                // one shot per block
                ans = fresh.deliver(&packets, f);
            } else {
                for p in &packets {
                    ans = fresh.deliver(std::slice::from_ref(p), f);
                }
            }
            ans
        });
        self.counters.inc("set_determinism_checks");
        let fresh = match res {
            Ok(a) => a,
            Err(p) => Ans::Panic(panic_class(&p)),
        };
        let same = match (&fresh, &cur) {
            (Ans::Some(a), Ans::Some(b)) => a == b,
            (Ans::None, Ans::None) => true,
            _ => false,
        };
        if !same {
            return Err(self.fail(
                "C08",
                "set-determinism".into(),
                format!(
                    "receiver {rx} ({:?}) answers {} after its history; a fresh {:?} receiver fed the same distinct packets in sorted order answers {}",
                    self.rxs[rx].spec.kind,
                    cur.tag(),
                    kind,
                    fresh.tag()
                ),
            ));
        }
        Ok(())
    }
}

/// Execute a whole resolved scenario (replay / minimisation / C07 re-execution).
pub fn run_scenario(sc: &Scenario, oracles: Oracles, transcript: bool, verbose: bool) -> (Option<Exec>, Result<(), Fail>) {
    let mut ex = match Exec::new(&sc.setup, oracles, transcript, verbose) {
        Ok(e) => e,
        Err(f) => return (None, Err(f)),
    };
    for ev in &sc.events {
        if let Err(f) = ex.apply(ev) {
            return (Some(ex), Err(f));
        }
    }
    (Some(ex), Ok(()))
}
