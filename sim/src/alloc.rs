//! The allocator seam. raptorq never handles allocation failure, but *where* the allocator places a
//! buffer, whether fresh memory happens to be zero, and whether growing a buffer moves it are
//! decided by the environment, not by the inputs - and every symbol the kernels work on lives in a
//! `Vec<u8>` whose only alignment guarantee is 1.
//!
//! With `RQSIM_ALLOC=1` in the environment (decided once, at the first allocation) every allocation of
//! this process is served by this wrapper around the system allocator:
//!   * the block is placed `shift` bytes past a 64-byte boundary, `shift` being the calling thread's
//!     current knob rounded down to the alignment the layout asks for (so `Vec<u8>` buffers start at
//!     odd addresses, 16-byte-aligned types at 16 mod 64, ...) - all of it legal for `GlobalAlloc`;
//!   * fresh memory is filled with the thread's fill byte (never zero unless `alloc_zeroed` is used);
//!   * freed memory is overwritten before it goes back to the system;
//!   * `realloc` always moves (default `GlobalAlloc::realloc`: allocate, copy, free).
//! Without the variable the wrapper passes everything straight through to the system allocator.

use std::alloc::{GlobalAlloc, Layout, System};
use std::cell::Cell;
use std::sync::atomic::{AtomicU8, Ordering};

pub struct SeamAlloc;

static MODE: AtomicU8 = AtomicU8::new(0); // 0 = undecided, 1 = pass-through, 2 = seam active

thread_local! {
    static SHIFT: Cell<u8> = const { Cell::new(0) };
    static FILL: Cell<u8> = const { Cell::new(0xA5) };
}

extern "C" {
    fn getenv(name: *const std::os::raw::c_char) -> *const std::os::raw::c_char;
}

#[inline]
fn active() -> bool {
    match MODE.load(Ordering::Relaxed) {
        1 => false,
        2 => true,
        _ => {
            // no allocation allowed here: plain libc getenv
            let on = unsafe {
                let p = getenv(b"RQSIM_ALLOC\0".as_ptr() as *const std::os::raw::c_char);
                !p.is_null() && *p == b'1' as std::os::raw::c_char
            };
            MODE.store(if on { 2 } else { 1 }, Ordering::Relaxed);
            on
        }
    }
}

/// is the seam active in this process?
pub fn enabled() -> bool {
    active()
}

/// knobs of the calling thread for the allocations that follow
pub fn set_knobs(shift: u8, fill: u8) {
    SHIFT.with(|s| s.set(shift & 63));
    FILL.with(|f| f.set(fill));
}

/// knobs as a fixed function of a scenario key (so that live run, re-execution and replay agree)
pub fn set_knobs_for(key: u64) {
    const SHIFTS: [u8; 12] = [1, 3, 7, 8, 9, 15, 16, 17, 31, 32, 33, 48];
    const FILLS: [u8; 4] = [0xA5, 0xFF, 0x01, 0x80];
    let mut x = key ^ 0x9E37_79B9_7F4A_7C15;
    x = (x ^ (x >> 30)).wrapping_mul(0xBF58_476D_1CE4_E5B9);
    x = (x ^ (x >> 27)).wrapping_mul(0x94D0_49BB_1331_11EB);
    x ^= x >> 31;
    set_knobs(SHIFTS[(x % 12) as usize], FILLS[((x >> 8) % 4) as usize]);
}

const HEAD: usize = 64;

#[inline]
fn outer(layout: Layout) -> (Layout, usize) {
    let a = layout.align().max(HEAD);
    // a bytes of header (keeps the requested alignment), up to 63 bytes of shift
    (unsafe { Layout::from_size_align_unchecked(layout.size() + a + HEAD, a) }, a)
}

unsafe impl GlobalAlloc for SeamAlloc {
    unsafe fn alloc(&self, layout: Layout) -> *mut u8 {
        if !active() {
            return System.alloc(layout);
        }
        let (ol, a) = outer(layout);
        let base = System.alloc(ol);
        if base.is_null() {
            return base;
        }
        let want = SHIFT.try_with(|s| s.get()).unwrap_or(0) as usize;
        let shift = want - want % layout.align().min(HEAD); // stays a multiple of the requested alignment
        let shift = if layout.align() >= HEAD { 0 } else { shift };
        let user = base.add(a + shift);
        *user.sub(1) = shift as u8;
        let fill = FILL.try_with(|f| f.get()).unwrap_or(0xA5);
        std::ptr::write_bytes(user, fill, layout.size());
        user
    }
    unsafe fn dealloc(&self, ptr: *mut u8, layout: Layout) {
        if !active() {
            return System.dealloc(ptr, layout);
        }
        let (ol, a) = outer(layout);
        let shift = *ptr.sub(1) as usize;
        std::ptr::write_bytes(ptr, 0xDD, layout.size());
        System.dealloc(ptr.sub(a + shift), ol)
    }
    unsafe fn alloc_zeroed(&self, layout: Layout) -> *mut u8 {
        if !active() {
            return System.alloc_zeroed(layout);
        }
        let p = self.alloc(layout);
        if !p.is_null() {
            std::ptr::write_bytes(p, 0, layout.size());
        }
        p
    }
    unsafe fn realloc(&self, ptr: *mut u8, layout: Layout, new_size: usize) -> *mut u8 {
        if !active() {
            return System.realloc(ptr, layout, new_size);
        }
        // always moves
        let nl = Layout::from_size_align_unchecked(new_size, layout.align());
        let np = self.alloc(nl);
        if !np.is_null() {
            std::ptr::copy_nonoverlapping(ptr, np, layout.size().min(new_size));
            self.dealloc(ptr, layout);
        }
        np
    }
}
