//! C17, sequential part: request *histories* against the real process-wide plan cache (std Mutex,
//! OnceLock, shipped capacity 64, real thread-local storage) on one OS thread, without shuttle.
//! The interleaving dimension of C17 is explored by the shuttle harness (/verif/shuttle17); this
//! engine covers what shuttle cannot model or reaches only at high cost: long histories with more
//! than 64 distinct sizes against the shipped capacity, symbol sizes other than 4 bytes, block
//! lengths that alias under 16-bit truncation, and any per-thread state in front of the cache.
//!
//! Oracles: every encoder equals the un-cached single-thread reference (hook H3: direct solve, no
//! plan, no cache) in source packets, repair packets and intermediate symbols; after every request
//! the cache snapshot (hook H2) satisfies |plans| <= capacity, insertion order is a bijection with
//! the key set, and every stored plan has the symbol count of its key.

use crate::prng::{run_seed, Rng};
use crate::report::{self, ddmin, Violation};
use crate::util::{guarded, panic_class, Ctx};
use raptorq::{verif_plan_cache, Encoder, EncodingPacket, ObjectTransmissionInformation, SourceBlockEncoder};
use serde::{Deserialize, Serialize};
use serde_json::json;
use std::collections::{BTreeSet, HashMap};

#[derive(Clone, Debug, Serialize, Deserialize, PartialEq)]
pub struct Req {
    pub k: u16,
    pub t: u16,
    pub data_seed: u8,
    /// > 0: not a request but a jump of the simulated clock by this many seconds (idle period)
    #[serde(default, skip_serializing_if = "is_zero")]
    pub jump_s: u32,
    /// true: an *object* of two blocks (k + 1 and k symbols) through `Encoder::new`, which consults the
    /// cache once per block size
    #[serde(default, skip_serializing_if = "is_false")]
    pub obj: bool,
}

fn is_false(x: &bool) -> bool {
    !*x
}

fn is_zero(x: &u32) -> bool {
    *x == 0
}

use crate::clock;

#[derive(Clone, Debug, Serialize, Deserialize, PartialEq)]
pub struct History {
    pub reqs: Vec<Req>,
}

type Observed = (Vec<EncodingPacket>, Vec<EncodingPacket>, Vec<Vec<u8>>);

fn data_for(r: &Req) -> Vec<u8> {
    let mut x = ((r.k as u64) << 24) | ((r.t as u64) << 8) | r.data_seed as u64;
    let mut v = vec![0u8; r.k as usize * r.t as usize];
    Rng::new(crate::prng::splitmix64(&mut x)).fill(&mut v);
    v
}

fn observe(e: &SourceBlockEncoder) -> Observed {
    let mut repair = e.repair_packets(0, 2);
    repair.extend(e.repair_packets(70_001, 1));
    (e.source_packets(), repair, e.verif_intermediate_symbols())
}

pub struct Fail {
    pub oracle: String,
    pub detail: String,
    pub at: usize,
}

fn check_snapshot(at: usize) -> Result<usize, Fail> {
    let (keys, order, counts) = verif_plan_cache::snapshot();
    if keys.len() > verif_plan_cache::CAPACITY {
        return Err(Fail { oracle: "capacity".into(), detail: format!("cache holds {} plans > capacity {}", keys.len(), verif_plan_cache::CAPACITY), at });
    }
    let o: BTreeSet<u16> = order.iter().copied().collect();
    if o.len() != order.len() {
        return Err(Fail { oracle: "order-dup".into(), detail: format!("insertion order holds a key twice: {order:?}"), at });
    }
    if o.iter().copied().collect::<Vec<_>>() != keys {
        return Err(Fail { oracle: "bijection".into(), detail: format!("insertion order and key set differ: keys={keys:?} order={order:?}"), at });
    }
    if keys != counts {
        return Err(Fail { oracle: "key-count".into(), detail: format!("a plan is stored under a symbol count it was not generated for: keys={keys:?} counts={counts:?}"), at });
    }
    Ok(keys.len())
}

/// progress of the current history, for the hang watchdog: (requests finished so far in this
/// process, the history being executed and the index of the request in flight)
static PROGRESS: std::sync::atomic::AtomicU64 = std::sync::atomic::AtomicU64::new(0);
static CURRENT: std::sync::Mutex<Option<(History, usize, u64)>> = std::sync::Mutex::new(None);

/// A request that never returns (a requester waiting for a generation that will never finish, a
/// lock taken twice) would hang the check: a watchdog thread reports it as a violation when no
/// request has finished for `secs` seconds of real time (sleep is not subject to the clock seam).
fn start_watchdog(ctx: &Ctx, secs: u64, replay_path: Option<String>) {
    let ctx = ctx.clone();
    std::thread::spawn(move || {
        let mut last = PROGRESS.load(std::sync::atomic::Ordering::SeqCst);
        let mut idle = 0u64;
        loop {
            std::thread::sleep(std::time::Duration::from_secs(1));
            let now = PROGRESS.load(std::sync::atomic::Ordering::SeqCst);
            if now != last {
                last = now;
                idle = 0;
                continue;
            }
            idle += 1;
            if idle < secs {
                continue;
            }
            let cur = CURRENT.lock().unwrap_or_else(|p| p.into_inner()).clone();
            let Some((h, at, run)) = cur else {
                idle = 0;
                continue;
            };
            let f = Fail { oracle: "hang".into(), detail: format!("request #{at} ({:?}) has not returned for {secs} s: the requester is blocked for good", h.reqs.get(at)), at };
            let mut hh = h.clone();
            hh.reqs.truncate(at + 1);
            match &replay_path {
                Some(p) => println!("VIOLATION property=C17 replay={p} oracle=sequential:hang :: request #{at}: {}", f.detail),
                None => {
                    let v = to_violation(&ctx, run, &hh, &f, Some((h.reqs.len(), hh.reqs.len())));
                    report::conclude(&ctx, &[v]);
                }
            }
            std::process::exit(1);
        }
    });
}

thread_local! {
    static WEAKS: std::cell::RefCell<HashMap<u16, std::sync::Weak<raptorq::SourceBlockEncodingPlan>>> = std::cell::RefCell::new(HashMap::new());
}

pub struct Stats {
    pub client_crashes: u64,
    pub weak_checks: u64,
    pub clock_jumps: u64,
    pub jumped_s: u64,
    pub requests: u64,
    pub max_cached: usize,
    pub hits: u64,
    pub evictions: u64,
    pub alias_pairs: u64,
    pub objects: u64,
}

/// hook H8: weak handles to everything the cache accounts for (read-only, no lookup). Plans that are no
/// longer accounted for in the cache but are still alive although no client holds them are kept by the
/// cache outside its own book-keeping; they count towards the bound.
fn hidden_check(at: usize, st: &mut Stats) -> Result<(), Fail> {
    WEAKS.with(|w| {
        let mut w = w.borrow_mut();
        for (k, h) in verif_plan_cache::snapshot_weak() {
            w.insert(k, h);
        }
        // forget sizes whose plan is gone
        w.retain(|_, h| h.strong_count() > 0);
    });
    let (after_keys, _, _) = verif_plan_cache::snapshot();
    let hidden: Vec<u16> = WEAKS.with(|w| w.borrow().iter().filter(|(k, w)| !after_keys.contains(k) && w.strong_count() > 0).map(|(k, _)| *k).collect());
    if after_keys.len() + hidden.len() > verif_plan_cache::CAPACITY {
        return Err(Fail {
            oracle: "capacity-hidden".into(),
            detail: format!("{} plans in the map plus {} evicted ones still kept alive by the cache (sizes {:?}) exceed the capacity {}", after_keys.len(), hidden.len(), hidden, verif_plan_cache::CAPACITY),
            at,
        });
    }
    st.weak_checks += 1;
    Ok(())
}

pub fn execute(h: &History, refs: &mut HashMap<(u16, u16, u8), Observed>) -> Result<Stats, Fail> {
    let mut st = Stats { client_crashes: 0, weak_checks: 0, clock_jumps: 0, jumped_s: 0, requests: 0, max_cached: 0, hits: 0, evictions: 0, alias_pairs: 0, objects: 0 };
    let mut prev: Option<Req> = None;
    for (at, r) in h.reqs.iter().enumerate() {
        PROGRESS.fetch_add(1, std::sync::atomic::Ordering::SeqCst);
        if let Some(c) = CURRENT.lock().unwrap_or_else(|p| p.into_inner()).as_mut() {
            c.1 = at;
        }
        if r.jump_s > 0 {
            if !clock::advance_s(r.jump_s) {
                eprintln!("HARNESS-ERROR: clock seam missing (history asks for a clock jump)");
                std::process::exit(2);
            }
            st.clock_jumps += 1;
            st.jumped_s += r.jump_s as u64;
            // the cache must still be consistent when looked at after the idle period
            check_snapshot(at)?;
            continue;
        }
        if r.k == 0 || r.t == 0 {
            continue;
        }
        if r.k as u32 > 56403 {
            // client crash: a request for more symbols than supported makes the library panic inside
            // the request; the caller survives it. Whatever the cache did with its lock at that
            // moment (real std Mutex: poisoned if it was held), every later request must still work.
            let cfg = ObjectTransmissionInformation::new(0, 1, 0, 1, 1);
            let data = vec![0u8; r.k as usize];
            let _ = guarded(|| SourceBlockEncoder::new(0, &cfg, &data));
            st.client_crashes += 1;
            check_snapshot(at)?;
            continue;
        }
        if r.obj {
            // an object of two blocks, k + 1 and k symbols: Encoder::new asks the cache once per block size
            let (before_keys, _, _) = verif_plan_cache::snapshot();
            let kt = 2 * r.k as u64 + 1;
            let oti = ObjectTransmissionInformation::new(kt * r.t as u64, r.t, 2, 1, 1);
            let mut x = 0x0B1E_C700u64 ^ ((r.k as u64) << 24) | ((r.t as u64) << 8) | r.data_seed as u64;
            let mut data = vec![0u8; (kt * r.t as u64) as usize];
            Rng::new(crate::prng::splitmix64(&mut x)).fill(&mut data);
            let got = guarded(|| Encoder::new(&data, oti).get_block_encoders().iter().map(observe).collect::<Vec<Observed>>());
            let got = match got {
                Ok(g) => g,
                Err(p) => return Err(Fail { oracle: format!("panic:{}", panic_class(&p)), detail: format!("Encoder::new for blocks of {} and {} symbols, T={} panicked: {p}", r.k + 1, r.k, r.t), at }),
            };
            let split = (r.k as usize + 1) * r.t as usize;
            let want = guarded(|| vec![observe(&SourceBlockEncoder::verif_new_unplanned(0, &oti, &data[..split], 250)), observe(&SourceBlockEncoder::verif_new_unplanned(1, &oti, &data[split..], 250))]);
            let want = match want {
                Ok(w) => w,
                Err(p) => return Err(Fail { oracle: format!("reference-panic:{}", panic_class(&p)), detail: p, at }),
            };
            if got != want {
                return Err(Fail { oracle: "transparency".into(), detail: format!("the block encoders of an object with blocks of {} and {} symbols (T={}) differ from the un-cached single-thread encoders", r.k + 1, r.k, r.t), at });
            }
            let n = check_snapshot(at)?;
            hidden_check(at, &mut st)?;
            let (after_keys, _, _) = verif_plan_cache::snapshot();
            if before_keys.iter().any(|k| !after_keys.contains(k)) {
                st.evictions += 1;
            }
            st.max_cached = st.max_cached.max(n);
            st.requests += 1;
            st.objects += 1;
            prev = None;
            continue;
        }
        let cfg = ObjectTransmissionInformation::new(0, r.t, 0, 1, 1);
        let data = data_for(r);
        let key = (r.k, r.t, r.data_seed);
        if !refs.contains_key(&key) {
            if refs.len() > 400 {
                refs.clear();
            }
            let obs = guarded(|| observe(&SourceBlockEncoder::verif_new_unplanned(0, &cfg, &data, 250)));
            match obs {
                Ok(o) => {
                    refs.insert(key, o);
                }
                Err(p) => return Err(Fail { oracle: format!("reference-panic:{}", panic_class(&p)), detail: p, at }),
            }
        }
        let (before_keys, _, _) = verif_plan_cache::snapshot();
        if before_keys.contains(&r.k) {
            st.hits += 1;
        }
        if let Some(p) = &prev {
            if p.t == r.t && p.k != r.k && (p.k as u32 * p.t as u32) % 65536 == (r.k as u32 * r.t as u32) % 65536 {
                st.alias_pairs += 1;
            }
        }
        let got = guarded(|| observe(&SourceBlockEncoder::new(0, &cfg, &data)));
        let got = match got {
            Ok(g) => g,
            Err(p) => return Err(Fail { oracle: format!("panic:{}", panic_class(&p)), detail: format!("SourceBlockEncoder::new for K={} T={} panicked: {p}", r.k, r.t), at }),
        };
        let want = &refs[&key];
        if got.0 != want.0 || got.1 != want.1 || got.2 != want.2 {
            let what = if got.0 != want.0 { "source packets" } else if got.1 != want.1 { "repair packets" } else { "intermediate symbols" };
            return Err(Fail { oracle: "transparency".into(), detail: format!("{what} of the encoder for K={} T={} differ from the un-cached single-thread encoder", r.k, r.t), at });
        }
        let n = check_snapshot(at)?;
        hidden_check(at, &mut st)?;
        let (after_keys, _, _) = verif_plan_cache::snapshot();
        if before_keys.iter().any(|k| !after_keys.contains(k)) {
            st.evictions += 1;
        }
        st.max_cached = st.max_cached.max(n);
        st.requests += 1;
        prev = Some(r.clone());
    }
    Ok(st)
}

pub fn generate(seed: u64) -> History {
    let mut r = Rng::new(seed);
    let n = r.urange(60, 220);
    // a pool of more distinct sizes than the capacity
    let pool_n = r.urange(66, 90);
    let mut pool: Vec<u16> = vec![];
    while pool.len() < pool_n {
        let k = r.range(1, 130) as u16;
        if !pool.contains(&k) {
            pool.push(k);
        }
    }
    let mut reqs = vec![];
    let mut i = 0usize;
    // a third of the histories contain idle periods (simulated clock jumps)
    let jumps = r.chance(1, 3);
    while reqs.len() < n {
        if r.chance(1, 60) {
            // a rejected (oversized) request
            reqs.push(Req { k: 56404 + 1000 * r.below(9) as u16, t: 1, data_seed: 0, jump_s: 0, obj: false });
        }
        if jumps && r.chance(1, 30) {
            let s = *r.pick(&[1u32, 30, 59, 60, 61, 120, 600, 3600, 86_400, 2_592_000]);
            reqs.push(Req { k: 0, t: 0, data_seed: 0, jump_s: s, obj: false });
        }
        if r.chance(1, 10) {
            // an object whose two block sizes are k + 1 and k (k from the pool, so that the sizes are
            // sometimes cached, sometimes not, and the cache is at any fill level)
            reqs.push(Req { k: (*r.pick(&pool)).min(129), t: 4, data_seed: r.below(4) as u8, jump_s: 0, obj: true });
            continue;
        }
        match r.below(11) {
            10 => {
                // neighbouring sizes around an extended block size K' (K' + 1, K', K' - 1 map to
                // different table rows / paddings), also above the sparse threshold
                let kps: Vec<u32> = crate::tables::T2.iter().map(|row| row.0).filter(|kp| *kp >= 10 && *kp <= 1300).collect();
                let kp = *r.pick(&kps) as u16;
                let mut trio = vec![kp + 1, kp, kp - 1];
                if r.chance(1, 2) {
                    trio.reverse();
                }
                for k in trio {
                    reqs.push(Req { k, t: 4, data_seed: r.below(2) as u8, jump_s: 0, obj: false });
                }
            }
            0 => {
                // two blocks whose byte lengths agree modulo 2^16 (same symbol size, different K)
                let (t, step) = *r.pick(&[(1024u16, 64u16), (4096, 16), (16384, 4), (32768, 2)]);
                let k1 = r.range(1, 12) as u16;
                let k2 = k1 + step * r.range(1, 2) as u16;
                let mut pair = [Req { k: k1, t, data_seed: r.below(4) as u8, jump_s: 0, obj: false }, Req { k: k2, t, data_seed: r.below(4) as u8, jump_s: 0, obj: false }];
                if r.chance(1, 2) {
                    pair.swap(0, 1);
                }
                reqs.extend(pair);
            }
            1 | 2 => {
                // walk through the pool (fills and overflows the cache)
                reqs.push(Req { k: pool[i % pool.len()], t: 4, data_seed: r.below(4) as u8, jump_s: 0, obj: false });
                i += 1;
            }
            3 => {
                // a hot size requested again and again
                reqs.push(Req { k: pool[0], t: 4, data_seed: r.below(4) as u8, jump_s: 0, obj: false });
            }
            4 => {
                let t = *r.pick(&[1u16, 2, 8, 16, 63, 64, 65, 1280]);
                reqs.push(Req { k: *r.pick(&pool), t, data_seed: r.below(4) as u8, jump_s: 0, obj: false });
            }
            _ => {
                reqs.push(Req { k: *r.pick(&pool), t: 4, data_seed: r.below(4) as u8, jump_s: 0, obj: false });
            }
        }
    }
    History { reqs }
}

const STREAM: u64 = 1717;

fn to_violation(ctx: &Ctx, run: u64, h: &History, f: &Fail, min_from: Option<(usize, usize)>) -> Violation {
    Violation {
        property: "C17".into(),
        oracle: format!("sequential:{}", f.oracle),
        signature: format!("seq:{}", f.oracle),
        seed: ctx.seed,
        run,
        engine: "cacheseq",
        observed: format!("request #{}: {}", f.at, f.detail),
        scenario: serde_json::to_value(h).unwrap(),
        minimised_from: min_from,
    }
}

/// returns (exit code); writes the evidence *fragment* sim-side (merged by shuttle17/merge_evidence.py)
pub fn run(ctx: &Ctx) -> i32 {
    clock::ensure(&ctx.verif_dir);
    let t0 = std::time::Instant::now();
    let n = ctx.runs(150, 6_000);
    let mut refs: HashMap<(u16, u16, u8), Observed> = HashMap::new();
    start_watchdog(ctx, 120, None);
    // self-check of the seam: std's Instant must see a jump
    let probe = std::time::Instant::now();
    if !clock::advance_s(7) || probe.elapsed().as_secs() < 7 {
        eprintln!("HARNESS-ERROR: the clock interposer does not move std::time::Instant");
        return 2;
    }
    let mut total = Stats { client_crashes: 0, weak_checks: 0, clock_jumps: 0, jumped_s: 7, requests: 0, max_cached: 0, hits: 0, evictions: 0, alias_pairs: 0, objects: 0 };
    let mut violations = vec![];
    let mut runs = 0u64;
    let mut sample = None;
    // one OS thread on purpose: the cache is process-wide, so only a sequential driver makes the
    // sequence of cache states a function of the seed
    for run in 0..n {
        let mut h = generate(run_seed(ctx.seed, STREAM, run));
        if run == 0 {
            // the extremes of the legal range once per batch: the largest block the code supports
            // (a miss, later a hit), the smallest, and the last size whose K' is below the maximum
            h.reqs.insert(0, Req { k: 56403, t: 1, data_seed: 0, jump_s: 0, obj: false });
            h.reqs.insert(1, Req { k: 1, t: 1, data_seed: 0, jump_s: 0, obj: false });
            h.reqs.push(Req { k: 56403, t: 1, data_seed: 1, jump_s: 0, obj: false });
            h.reqs.push(Req { k: 55844, t: 1, data_seed: 0, jump_s: 0, obj: false });
        }
        if run == 0 {
            sample = Some(json!({"requests": h.reqs.len(), "head": &h.reqs[..12.min(h.reqs.len())]}));
        }
        runs += 1;
        *CURRENT.lock().unwrap_or_else(|p| p.into_inner()) = Some((h.clone(), 0, run));
        match execute(&h, &mut refs) {
            Ok(st) => {
                total.requests += st.requests;
                total.clock_jumps += st.clock_jumps;
                total.weak_checks += st.weak_checks;
                total.client_crashes += st.client_crashes;
                total.jumped_s += st.jumped_s;
                total.max_cached = total.max_cached.max(st.max_cached);
                total.hits += st.hits;
                total.evictions += st.evictions;
                total.alias_pairs += st.alias_pairs;
                total.objects += st.objects;
            }
            Err(f) => {
                // (the watchdog only watches requests, not the minimisation that follows)
                *CURRENT.lock().unwrap_or_else(|p| p.into_inner()) = None;
                // minimise: the cache keeps state between executions, so a candidate is judged by
                // re-running it (the failure classes of interest do not depend on earlier runs)
                let oracle = f.oracle.clone();
                let from = h.reqs.len();
                let mut best = h.clone();
                best.reqs.truncate(f.at + 1);
                // every candidate is judged in a fresh process: the cache (and any per-thread state in
                // front of it) keeps what earlier histories left behind, a replay starts from nothing
                let fresh = |c: &[Req]| -> Option<String> {
                    let dir = ctx.verif_dir.join("sim").join("target").join("scratch");
                    let _ = std::fs::create_dir_all(&dir);
                    let file = dir.join(format!("c17seq-{}.json", std::process::id()));
                    let doc = json!({"format": 1, "property": "C17", "engine": "cacheseq", "run": run, "scenario": History { reqs: c.to_vec() }});
                    std::fs::write(&file, doc.to_string()).ok()?;
                    let out = std::process::Command::new(std::env::current_exe().ok()?).arg("replay").arg(&file).output().ok()?;
                    let _ = std::fs::remove_file(&file);
                    let text = String::from_utf8_lossy(&out.stdout).to_string();
                    if text.contains(&format!("oracle=sequential:{oracle}")) {
                        Some(text)
                    } else {
                        None
                    }
                };
                // the prefix of the whole batch up to the failing history may matter; start from the
                // failing history alone and fall back to reporting it unminimised
                let (hmin, fmin) = if fresh(&best.reqs).is_some() {
                    let mut budget = 150;
                    let reqs = ddmin(&best.reqs, |c| {
                        if budget == 0 {
                            return false;
                        }
                        budget -= 1;
                        fresh(c).is_some()
                    });
                    let detail = fresh(&reqs).unwrap_or_default();
                    let at = reqs.len().saturating_sub(1);
                    (History { reqs }, Fail { oracle: oracle.clone(), detail: detail.split(" :: ").nth(1).unwrap_or(&f.detail).trim().to_string(), at })
                } else {
                    (h.clone(), f)
                };
                violations.push(to_violation(ctx, run, &hmin, &fmin, Some((from, hmin.reqs.len()))));
                break;
            }
        }
    }
    *CURRENT.lock().unwrap_or_else(|p| p.into_inner()) = None;
    // the harness's own stopwatch reads the simulated clock too: take the jumps out again
    let wall = (t0.elapsed().as_secs_f64() - total.jumped_s as f64).max(0.0);
    let frag = json!({
        "flavour": "sequential (no shuttle: std Mutex/OnceLock, shipped capacity, real thread-local storage, one OS thread)",
        "capacity": verif_plan_cache::CAPACITY,
        "histories": runs, "requests": total.requests, "cache_hits": total.hits, "evictions_observed": total.evictions,
        "max_plans_cached": total.max_cached, "client_crashes_injected": total.client_crashes, "hidden_retention_checks": total.weak_checks, "two_block_objects_through_encoder_new": total.objects, "clock_jumps_injected": total.clock_jumps, "simulated_idle_seconds": total.jumped_s,
        "clock_seam": "LD_PRELOAD interposer on clock_gettime/gettimeofday/time with a simulator-owned offset (sim/src/clockshim.c)", "back_to_back_requests_with_block_lengths_equal_mod_65536": total.alias_pairs,
        "wall_s": wall, "violations": violations.len(), "sample_history": sample, "tier": ctx.tier(), "seed": ctx.seed,
    });
    let fdir = ctx.verif_dir.join("shuttle17").join("target");
    let _ = std::fs::create_dir_all(&fdir);
    let _ = std::fs::write(fdir.join("evidence-sequential.json"), serde_json::to_string_pretty(&frag).unwrap());
    println!(
        "C17 {} [sequential histories, capacity {}]: {} histories, {} requests, {} evictions, max {} plans cached, {} clock jumps ({} simulated idle seconds), {:.1}s",
        ctx.tier(),
        verif_plan_cache::CAPACITY,
        runs,
        total.requests,
        total.evictions,
        total.max_cached,
        total.clock_jumps,
        total.jumped_s,
        wall
    );
    report::conclude(ctx, &violations)
}

pub fn replay(ctx: &Ctx, doc: &serde_json::Value) -> i32 {
    clock::ensure(&ctx.verif_dir);
    let h: History = match serde_json::from_value(doc["scenario"].clone()) {
        Ok(h) => h,
        Err(e) => {
            eprintln!("HARNESS-ERROR: bad cacheseq scenario: {e}");
            return 2;
        }
    };
    let mut rf = HashMap::new();
    *CURRENT.lock().unwrap_or_else(|p| p.into_inner()) = Some((h.clone(), 0, doc["run"].as_u64().unwrap_or(0)));
    start_watchdog(ctx, 60, Some(doc["__path"].as_str().unwrap_or("?").to_string()));
    match execute(&h, &mut rf) {
        Ok(_) => {
            println!("replay: history passes ({} requests)", h.reqs.len());
            0
        }
        Err(f) => {
            println!("VIOLATION property=C17 replay={} oracle=sequential:{} :: request #{}: {}", doc["__path"].as_str().unwrap_or("?"), f.oracle, f.at, f.detail);
            1
        }
    }
}
