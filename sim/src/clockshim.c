/* Clock seam for the sequential C17 engine: an LD_PRELOAD interposer that adds a simulator-owned
 * offset to every wall/monotonic clock the process reads through libc. The simulator advances the
 * offset with verif_clock_advance(); CPU-time clocks are left alone. Built on demand by rqsim. */
#define _GNU_SOURCE
#include <dlfcn.h>
#include <time.h>
#include <sys/time.h>

#include <stdlib.h>
static long long off_ns = 0;
/* VERIF_CLOCK_RATE=<r>: time runs r times faster than real time (clock skew), per clock id,
 * measured from the first reading of that clock */
static long long rate = 0;
static struct timespec first[16];
static int have_first[16];

void verif_clock_advance(long long ns) { __atomic_add_fetch(&off_ns, ns, __ATOMIC_SEQ_CST); }
long long verif_clock_offset(void) { return __atomic_load_n(&off_ns, __ATOMIC_SEQ_CST); }

static void shift(clockid_t id, struct timespec *ts) {
    long long o = verif_clock_offset();
    if (rate == 0) {
        const char *e = getenv("VERIF_CLOCK_RATE");
        rate = e ? atoll(e) : 1;
        if (rate < 1) rate = 1;
    }
    if (rate > 1 && id >= 0 && id < 16) {
        if (!have_first[id]) { first[id] = *ts; have_first[id] = 1; }
        long long d = (long long)(ts->tv_sec - first[id].tv_sec) * 1000000000LL + (ts->tv_nsec - first[id].tv_nsec);
        o += d * (rate - 1);
    }
    long long ns = (long long)ts->tv_nsec + o % 1000000000LL;
    ts->tv_sec += o / 1000000000LL + ns / 1000000000LL;
    ts->tv_nsec = ns % 1000000000LL;
}

int clock_gettime(clockid_t id, struct timespec *ts) {
    static int (*real)(clockid_t, struct timespec *) = 0;
    if (!real) real = (int (*)(clockid_t, struct timespec *))dlsym(RTLD_NEXT, "clock_gettime");
    int r = real(id, ts);
    if (r == 0 && id != CLOCK_PROCESS_CPUTIME_ID && id != CLOCK_THREAD_CPUTIME_ID) shift(id, ts);
    return r;
}

int gettimeofday(struct timeval *tv, void *tz) {
    struct timespec ts;
    (void)tz;
    if (clock_gettime(CLOCK_REALTIME, &ts) != 0) return -1;
    if (tv) { tv->tv_sec = ts.tv_sec; tv->tv_usec = ts.tv_nsec / 1000; }
    return 0;
}

time_t time(time_t *t) {
    struct timespec ts;
    clock_gettime(CLOCK_REALTIME, &ts);
    if (t) *t = ts.tv_sec;
    return ts.tv_sec;
}
