//! The clock seam: every clock the process reads through libc goes through an LD_PRELOAD
//! interposer (clockshim.c) whose offset the simulator owns. rqsim builds the interposer and
//! re-executes itself under it; nothing in /repo reads a clock today, so on the unchanged tree a
//! jump is a no-op by construction -- it exists so that a cache that starts to depend on idle time
//! (expiry, clean-up) is exercised across long idle periods in microseconds.

use std::ffi::c_void;
use std::os::unix::process::CommandExt;
const SHIM_SRC: &str = include_str!("clockshim.c");
extern "C" {
    fn dlsym(handle: *mut c_void, symbol: *const u8) -> *mut c_void;
}
type Adv = unsafe extern "C" fn(i64);
fn advance_fn() -> Option<Adv> {
    // RTLD_DEFAULT is the null handle on glibc
    let p = unsafe { dlsym(std::ptr::null_mut(), b"verif_clock_advance\0".as_ptr()) };
    if p.is_null() {
        None
    } else {
        Some(unsafe { std::mem::transmute::<*mut c_void, Adv>(p) })
    }
}
/// path of the interposer, building it if need be (for child processes started under it)
pub fn build(verif_dir: &std::path::Path) -> Option<std::path::PathBuf> {
    let dir = verif_dir.join("sim").join("target").join("scratch");
    let _ = std::fs::create_dir_all(&dir);
    let src = dir.join(format!("clockshim-{}.c", std::process::id()));
    let tmp = dir.join(format!("libclockshim-{}.so", std::process::id()));
    let so = dir.join("libclockshim.so");
    let built = std::fs::write(&src, SHIM_SRC).is_ok()
        && std::process::Command::new("cc").args(["-shared", "-fPIC", "-O1", "-o"]).arg(&tmp).arg(&src).arg("-ldl").status().map(|s| s.success()).unwrap_or(false)
        && std::fs::rename(&tmp, &so).is_ok();
    let _ = std::fs::remove_file(&src);
    if built {
        Some(so)
    } else {
        None
    }
}

/// the factor by which this process's clock runs fast (1 = real time)
pub fn rate() -> u64 {
    if !loaded() {
        return 1;
    }
    std::env::var("VERIF_CLOCK_RATE").ok().and_then(|s| s.parse::<u64>().ok()).unwrap_or(1).max(1)
}

pub fn loaded() -> bool {
    advance_fn().is_some()
}
/// advance the simulated clock; false if the seam is not in place
pub fn advance_s(secs: u32) -> bool {
    match advance_fn() {
        Some(f) => {
            unsafe { f(secs as i64 * 1_000_000_000) };
            true
        }
        None => false,
    }
}
/// make sure this process runs under the interposer: build it and re-exec once if it does not
pub fn ensure(verif_dir: &std::path::Path) {
    ensure_rate(verif_dir, None)
}

/// as `ensure`, with the clock running `rate` times faster than real time (clock skew)
pub fn ensure_rate(verif_dir: &std::path::Path, rate: Option<u64>) {
    let have_rate = std::env::var("VERIF_CLOCK_RATE").ok().and_then(|s| s.parse::<u64>().ok());
    if loaded() && (rate.is_none() || rate == have_rate) {
        return;
    }
    if loaded() {
        eprintln!("HARNESS-ERROR: clock interposer loaded with rate {have_rate:?}, {rate:?} wanted");
        std::process::exit(2);
    }
    if std::env::var("VERIF_CLOCKSHIM").is_ok() {
        eprintln!("HARNESS-ERROR: clock interposer preloaded but its symbols are not visible");
        std::process::exit(2);
    }
    let Some(so) = build(verif_dir) else {
        eprintln!("HARNESS-ERROR: cannot build the clock interposer with cc under {}", verif_dir.display());
        std::process::exit(2);
    };
    let exe = std::env::current_exe().expect("current_exe");
    let mut cmd = std::process::Command::new(exe);
    cmd.args(std::env::args_os().skip(1)).env("LD_PRELOAD", &so).env("VERIF_CLOCKSHIM", "1");
    if let Some(r) = rate {
        cmd.env("VERIF_CLOCK_RATE", r.to_string());
    }
    let err = cmd.exec();
    eprintln!("HARNESS-ERROR: re-exec under the clock interposer failed: {err}");
    std::process::exit(2);
}

