//! C03 — reception overhead: failure odds at K+h symbols. Monte-Carlo over seeded erasure patterns
//! with an exact binomial test against the advertised bounds (1 %, 0.01 %, 0.001 %).

use crate::prng::{run_seed, Rng};
use crate::report::{self, Evidence, Violation};
use crate::util::{guarded, panic_class, par_fold, Counters, Ctx, HashSet64};
use raptorq::{EncodingPacket, ObjectTransmissionInformation, SourceBlockDecoder, SourceBlockEncoder};
use serde_json::json;
use std::collections::{BTreeMap, BTreeSet};

pub const BOUNDS: [f64; 3] = [0.01, 0.0001, 0.00001];
pub const ALPHA: f64 = 1e-9;
const DELIVERY_NAMES: [&str; 5] = ["one batch", "one call per symbol", "K at once then one by one", "one batch with a retransmitted copy inside", "one call per symbol with retransmitted copies in between"];
const MODE_NAMES: [&str; 4] = ["uniform", "loss10", "loss40", "loss90"];

fn ln_gamma(x: f64) -> f64 {
    // Lanczos approximation (g = 7, n = 9)
    const C: [f64; 9] = [
        0.99999999999980993,
        676.5203681218851,
        -1259.1392167224028,
        771.32342877765313,
        -176.61502916214059,
        12.507343278686905,
        -0.13857109526572012,
        9.9843695780195716e-6,
        1.5056327351493116e-7,
    ];
    if x < 0.5 {
        return (std::f64::consts::PI / (std::f64::consts::PI * x).sin()).ln() - ln_gamma(1.0 - x);
    }
    let x = x - 1.0;
    let mut a = C[0];
    let t = x + 7.5;
    for (i, c) in C.iter().enumerate().skip(1) {
        a += c / (x + i as f64);
    }
    0.5 * (2.0 * std::f64::consts::PI).ln() + (x + 0.5) * t.ln() - t + a.ln()
}

fn ln_binom_pmf(n: u64, k: u64, p: f64) -> f64 {
    ln_gamma(n as f64 + 1.0) - ln_gamma(k as f64 + 1.0) - ln_gamma((n - k) as f64 + 1.0) + k as f64 * p.ln() + (n - k) as f64 * (1.0 - p).ln()
}

/// P[Bin(n, p) >= x], exact summation in log space
pub fn binom_tail_ge(n: u64, x: u64, p: f64) -> f64 {
    if x == 0 {
        return 1.0;
    }
    if x > n {
        return 0.0;
    }
    let mut sum = 0.0f64;
    let mut k = x;
    let mut last = f64::NEG_INFINITY;
    while k <= n {
        let l = ln_binom_pmf(n, k, p);
        sum += l.exp();
        // terms decrease beyond the mode; stop when negligible
        if k as f64 > n as f64 * p && l < last && l < -80.0 + sum.max(1e-300).ln() {
            break;
        }
        last = l;
        k += 1;
    }
    sum.min(1.0)
}

/// smallest x with P[Bin(n,p) >= x] < alpha
pub fn alarm_threshold(n: u64, p: f64, alpha: f64) -> u64 {
    let mut lo = (n as f64 * p) as u64;
    let mut hi = n;
    while lo < hi {
        let mid = lo + (hi - lo) / 2;
        if binom_tail_ge(n, mid, p) < alpha {
            hi = mid;
        } else {
            lo = mid + 1;
        }
    }
    lo
}

/// exact (Clopper-Pearson style) upper confidence bound for p given x failures in n trials
pub fn upper_bound(n: u64, x: u64, conf: f64) -> f64 {
    if n == 0 {
        return 1.0;
    }
    let a = 1.0 - conf;
    let (mut lo, mut hi) = (x as f64 / n as f64, 1.0f64);
    for _ in 0..60 {
        let mid = (lo + hi) / 2.0;
        // P[Bin(n, mid) <= x] = 1 - P[>= x+1]
        let cdf = 1.0 - binom_tail_ge(n, x + 1, mid);
        if cdf > a {
            lo = mid;
        } else {
            hi = mid;
        }
    }
    hi
}

const K_POOL: [u32; 26] = [1, 2, 4, 7, 10, 11, 12, 15, 18, 20, 26, 30, 32, 36, 42, 46, 50, 55, 60, 69, 75, 84, 91, 101, 110, 120];

#[derive(Clone, Debug)]
pub struct Trial {
    pub k: u32,
    pub h: u32,
    pub mode: u8,
    pub esis: Vec<u32>,
    pub data_seed: u64,
    /// 0: one decode() call with all K+h symbols; 1: one call per symbol; 2: K symbols at once, the
    /// rest one by one; 3: one call, with a retransmitted copy of an earlier symbol in the middle;
    /// 4: one call per symbol, with retransmitted copies in between
    pub delivery: u8,
}

pub const LARGE_K: [u32; 4] = [2000, 4000, 6000, 10000];
/// block sizes just above the dense/sparse switch-over and up to 1000
pub const MID_K: [u32; 7] = [250, 257, 300, 400, 500, 700, 1000];

pub fn band_of(k: u32) -> usize {
    if k <= 120 {
        0
    } else if k <= 1000 {
        1
    } else {
        2
    }
}
const BAND_NAMES: [&str; 3] = ["K<=120", "121..1000", "large (2000..10000)"];

pub fn gen_trial_band(seed: u64, h: u32, thorough: bool, band: u8) -> Trial {
    let mut r = Rng::new(seed);
    let k = if band == 2 {
        *r.pick(&LARGE_K)
    } else if band == 1 {
        *r.pick(&MID_K)
    } else if thorough && r.chance(1, 40) {
        r.range(121, 1000) as u32
    } else if r.chance(3, 4) {
        *r.pick(&K_POOL)
    } else {
        r.range(1, 120) as u32
    };
    let mode = r.below(4) as u8;
    let n = k + h;
    let mut set: BTreeSet<u32> = BTreeSet::new();
    if mode >= 1 {
        // channel mixture: source symbols survive with probability 1-p, topped up with repair
        let p_loss = [0, 10, 40, 90][mode as usize];
        for e in 0..k {
            if r.below(100) >= p_loss && (set.len() as u32) < n {
                set.insert(e);
            }
        }
        // an all-source set is not a decoding trial: make sure at least one source symbol is lost
        if set.len() as u32 == k {
            let victim = r.below(k as u64) as u32;
            set.remove(&victim);
        }
        while (set.len() as u32) < n {
            set.insert(k + r.below(((1u64 << 24) - k as u64) as u64) as u32);
        }
    } else {
        // uniformly random (K+h)-subset of all 2^24 encoding symbols
        while (set.len() as u32) < n {
            set.insert(r.below(1 << 24) as u32);
        }
        if set.range(0..k).count() as u32 == k {
            // all source symbols: trivially decodable, redraw one of them as a repair symbol
            let victim = *set.range(0..k).next().unwrap();
            set.remove(&victim);
            while (set.len() as u32) < n {
                set.insert(k + r.below(((1u64 << 24) - k as u64) as u64) as u32);
            }
        }
    }
    let mut esis: Vec<u32> = set.into_iter().collect();
    r.shuffle(&mut esis);
    let delivery = match r.below(6) {
        0 | 1 => 0,
        2 => 1,
        3 => 2,
        4 => 3,
        _ => 4,
    };
    Trial { k, h, mode, esis, data_seed: 0x0C03_0000 + k as u64, delivery }
}

type EncEntry = std::rc::Rc<(SourceBlockEncoder, Vec<EncodingPacket>, Vec<u8>)>;
thread_local! {
    static ENCODERS: std::cell::RefCell<std::collections::HashMap<(u32, u16, u64), EncEntry>> = std::cell::RefCell::new(std::collections::HashMap::new());
}

/// per-thread cache of block encoders (the object content is irrelevant to decodability, so trials
/// for the same K share one encoder; this also keeps the process-wide plan cache out of the loop)
pub fn encoder_for(k: u32, t: u16, data_seed: u64) -> EncEntry {
    ENCODERS.with(|m| {
        let mut m = m.borrow_mut();
        if m.len() > 300 {
            m.clear();
        }
        m.entry((k, t, data_seed))
            .or_insert_with(|| {
                let mut data = vec![0u8; k as usize * t as usize];
                Rng::new(data_seed).fill(&mut data);
                let cfg = ObjectTransmissionInformation::new(data.len() as u64, t, 1, 1, 1);
                let enc = SourceBlockEncoder::new(0, &cfg, &data);
                let src = enc.source_packets();
                std::rc::Rc::new((enc, src, data))
            })
            .clone()
    })
}

/// Ok(true) = decoded, Ok(false) = failure (None)
pub fn run_trial(t: &Trial) -> Result<bool, String> {
    let cfg = ObjectTransmissionInformation::new(t.k as u64, 1, 1, 1, 1);
    let mut data = vec![];
    let r = guarded(|| {
        let entry = encoder_for(t.k, 1, t.data_seed);
        let (enc, src, d) = &*entry;
        data = d.clone();
        let packets: Vec<EncodingPacket> = t
            .esis
            .iter()
            .map(|&e| if e < t.k { src[e as usize].clone() } else { enc.repair_packets(e - t.k, 1).swap_remove(0) })
            .collect();
        let mut dec = SourceBlockDecoder::new(0, &cfg, data.len() as u64);
        match t.delivery {
            0 => dec.decode(packets),
            3 => {
                // the K+h distinct symbols in one call, with a retransmission somewhere after the first
                let mut v = packets;
                if v.len() >= 2 {
                    let at = 1 + (t.esis[0] as usize) % (v.len() - 1);
                    let dup = v[(t.esis[v.len() - 1] as usize) % at].clone();
                    v.insert(at, dup);
                }
                dec.decode(v)
            }
            4 => {
                let mut r = None;
                let n = packets.len();
                for (i, p) in packets.iter().enumerate() {
                    if r.is_some() {
                        break;
                    }
                    r = dec.decode(std::iter::once(p.clone()));
                    if r.is_none() && i > 0 && (t.esis[i] % 3 == 0) && i + 1 < n {
                        // a retransmitted copy of an earlier symbol
                        r = dec.decode(std::iter::once(packets[(t.esis[i] as usize / 3) % i].clone()));
                    }
                }
                r
            }
            d => {
                // the same K+h symbols reach the decoder in several calls (arrival order = the
                // shuffled order of the set); the trial succeeds as soon as any call answers
                let first = if d == 2 { (t.k as usize).min(packets.len()) } else { 1 };
                let mut it = packets.into_iter();
                let head: Vec<EncodingPacket> = it.by_ref().take(first).collect();
                let mut r = dec.decode(head);
                for p in it {
                    if r.is_some() {
                        break;
                    }
                    r = dec.decode(std::iter::once(p));
                }
                r
            }
        }
    });
    match r {
        Err(p) => Err(format!("panic:{}", panic_class(&p))),
        Ok(None) => Ok(false),
        Ok(Some(v)) => {
            if v == data {
                Ok(true)
            } else {
                Err("wrong-block".into())
            }
        }
    }
}

#[derive(Default)]
struct Acc {
    n: [u64; 3],
    x: [u64; 3],
    /// [band][h] -> (trials, failures)
    band: [[[u64; 2]; 3]; 3],
    per_k: BTreeMap<u32, [u64; 6]>,
    per_mode: [[u64; 2]; 4],
    per_delivery: [[u64; 2]; 5],
    states: HashSet64,
    samples: Vec<serde_json::Value>,
}

const STREAM: u64 = 3;

fn trial_seed(seed: u64, h: u32, run: u64) -> u64 {
    run_seed(seed, STREAM + 100 * (h as u64 + 1), run)
}

pub fn run(ctx: &Ctx) -> i32 {
    let t0 = std::time::Instant::now();
    let thorough = !ctx.quick;
    let counts: [u64; 3] = [ctx.runs(200_000, 4_000_000), ctx.runs(600_000, 12_000_000), ctx.runs(600_000, 12_000_000)];
    // large-block band: few trials (0.1-1 s each), tested on its own so that a weakening confined to
    // large blocks is not diluted by the small-block trials
    let large_per_h = ctx.runs(96, 2_000);
    // middle band (250..1000: the sparse back-end's smaller sizes), 1-2 ms per trial
    let mid_per_h = ctx.runs(20_000, 400_000);
    let small_total: u64 = counts.iter().sum();
    let total: u64 = small_total + 3 * large_per_h + 3 * mid_per_h;
    let seed = ctx.seed;
    let (acc, fail) = par_fold(
        total,
        ctx.workers,
        48,
        |run, acc: &mut Acc| {
            // the expensive large-block trials come first so that they spread over all workers
            let (h, idx, band) = if run < 3 * large_per_h {
                ((run % 3) as u32, run / 3, 2u8)
            } else if run < 3 * large_per_h + 3 * mid_per_h {
                let run = run - 3 * large_per_h;
                ((run % 3) as u32, run / 3, 1u8)
            } else {
                let run = run - 3 * large_per_h - 3 * mid_per_h;
                if run < counts[0] {
                    (0u32, run, 0u8)
                } else if run < counts[0] + counts[1] {
                    (1, run - counts[0], 0)
                } else {
                    (2, run - counts[0] - counts[1], 0)
                }
            };
            let t = gen_trial_band(trial_seed(seed, h + 10 * band as u32, idx), h, thorough, band);
            let r = run_trial(&t);
            match r {
                Ok(ok) => {
                    acc.n[h as usize] += 1;
                    acc.band[band_of(t.k)][h as usize][0] += 1;
                    if !ok {
                        acc.band[band_of(t.k)][h as usize][1] += 1;
                    }
                    let e = acc.per_k.entry(t.k).or_insert([0; 6]);
                    e[2 * h as usize] += 1;
                    acc.per_mode[t.mode as usize][0] += 1;
                    acc.per_delivery[t.delivery as usize][0] += 1;
                    if !ok {
                        acc.per_delivery[t.delivery as usize][1] += 1;
                        acc.x[h as usize] += 1;
                        e[2 * h as usize + 1] += 1;
                        acc.per_mode[t.mode as usize][1] += 1;
                    }
                    let mut hsh = (t.k as u64) << 40 | (h as u64) << 36;
                    for e in &t.esis {
                        let mut x = *e as u64;
                        hsh ^= crate::prng::splitmix64(&mut x);
                    }
                    acc.states.insert(hsh);
                    if idx < 1 {
                        acc.samples.push(json!({"k": t.k, "h": h, "mode": t.mode, "delivery": t.delivery, "symbols": t.esis.len(), "esis_head": &t.esis[..t.esis.len().min(24)], "decoded": ok}));
                    }
                    Ok(())
                }
                Err(what) => Err((t, what)),
            }
        },
        |a, b| {
            for i in 0..3 {
                a.n[i] += b.n[i];
                a.x[i] += b.x[i];
                for j in 0..3 {
                    a.band[i][j][0] += b.band[i][j][0];
                    a.band[i][j][1] += b.band[i][j][1];
                }
            }
            for (k, v) in b.per_k {
                let e = a.per_k.entry(k).or_insert([0; 6]);
                for i in 0..6 {
                    e[i] += v[i];
                }
            }
            for m in 0..4 {
                a.per_mode[m][0] += b.per_mode[m][0];
                a.per_mode[m][1] += b.per_mode[m][1];
            }
            for m in 0..5 {
                a.per_delivery[m][0] += b.per_delivery[m][0];
                a.per_delivery[m][1] += b.per_delivery[m][1];
            }
            a.states.merge(b.states);
            a.samples.extend(b.samples);
        },
        Acc::default(),
    );
    let mut violations = vec![];
    if let Some((run, (t, what))) = fail {
        violations.push(Violation {
            property: "C03".into(),
            oracle: what.clone(),
            signature: format!("trial:{what}:K={}", t.k),
            seed: ctx.seed,
            run,
            engine: "trial",
            observed: format!("decoding K={} from {} symbols: {what}", t.k, t.esis.len()),
            scenario: json!({"kind": "trial", "k": t.k, "h": t.h, "mode": t.mode, "esis": t.esis, "data_seed": t.data_seed, "delivery": t.delivery}),
            minimised_from: None,
        });
    }
    let mut stats = vec![];
    for h in 0..3usize {
        let (n, x) = (acc.n[h], acc.x[h]);
        if n == 0 {
            continue;
        }
        let tail = binom_tail_ge(n, x, BOUNDS[h]);
        let thr = alarm_threshold(n, BOUNDS[h], ALPHA);
        let ub = upper_bound(n, x, 0.99);
        stats.push(json!({
            "h": h, "trials": n, "failures": x, "estimate": x as f64 / n as f64, "bound": BOUNDS[h],
            "upper_99": ub, "bound_positively_supported": ub < BOUNDS[h],
            "p_value_against_bound": tail, "alarm_at_failures": thr,
        }));
        if violations.is_empty() && tail < ALPHA {
            violations.push(Violation {
                property: "C03".into(),
                oracle: format!("failure-rate-h{h}"),
                signature: format!("stat:h={h}"),
                seed: ctx.seed,
                run: 0,
                engine: "trial",
                observed: format!(
                    "{x} failures in {n} trials at K+{h} symbols (rate {:.3e}); P[>= that | p = {}] = {:.2e} < {:.0e}: the advertised bound {} is refuted",
                    x as f64 / n as f64,
                    BOUNDS[h],
                    tail,
                    ALPHA,
                    BOUNDS[h]
                ),
                scenario: json!({"kind": "batch", "h": h, "trials": n, "failures": x, "tier": ctx.tier(), "seed": ctx.seed, "scale": ctx.scale}),
                minimised_from: None,
            });
        }
    }
    let mut band_stats = vec![];
    for b in 0..3usize {
        for h in 0..3usize {
            let (n, x) = (acc.band[b][h][0], acc.band[b][h][1]);
            if n == 0 {
                continue;
            }
            let tail = binom_tail_ge(n, x, BOUNDS[h]);
            band_stats.push(json!({"band": BAND_NAMES[b], "h": h, "trials": n, "failures": x, "p_value_against_bound": tail, "alarm_at_failures": alarm_threshold(n, BOUNDS[h], ALPHA)}));
            if violations.is_empty() && tail < ALPHA {
                violations.push(Violation {
                    property: "C03".into(),
                    oracle: format!("failure-rate-h{h}-band{b}"),
                    signature: format!("stat:h={h}:band={}", BAND_NAMES[b]),
                    seed: ctx.seed,
                    run: 0,
                    engine: "trial",
                    observed: format!(
                        "block sizes {}: {x} failures in {n} trials at K+{h} symbols (rate {:.3e}); P[>= that | p = {}] = {:.2e} < {:.0e}: the advertised bound is refuted for this band",
                        BAND_NAMES[b],
                        x as f64 / n as f64,
                        BOUNDS[h],
                        tail,
                        ALPHA
                    ),
                    scenario: json!({"kind": "batch", "h": h, "band": BAND_NAMES[b], "trials": n, "failures": x, "tier": ctx.tier(), "seed": ctx.seed, "scale": ctx.scale}),
                    minimised_from: None,
                });
            }
        }
    }
    let ratios = {
        let p = |h: usize| if acc.n[h] > 0 { acc.x[h] as f64 / acc.n[h] as f64 } else { f64::NAN };
        json!({"p0_over_p1": if acc.x[1] > 0 { json!(p(0) / p(1)) } else { json!(null) }, "p1_over_p2": if acc.x[2] > 0 { json!(p(1) / p(2)) } else { json!("no failure at h=2 observed") }})
    };
    let worst_k: Vec<serde_json::Value> = {
        let mut v: Vec<(f64, u32, u64, u64)> = acc.per_k.iter().filter(|(_, c)| c[0] >= 200).map(|(k, c)| (c[1] as f64 / c[0] as f64, *k, c[0], c[1])).collect();
        v.sort_by(|a, b| b.0.partial_cmp(&a.0).unwrap());
        v.iter().take(5).map(|(r, k, n, x)| json!({"k": k, "h": 0, "trials": n, "failures": x, "rate": r})).collect()
    };
    let wall = t0.elapsed().as_secs_f64() / crate::clock::rate() as f64; // real seconds, also under a fast clock
    report::write_evidence(
        ctx,
        &Evidence {
            level: "exploration",
            evaluations: acc.n.iter().sum(),
            distinct_nontrivial: acc.states.len() as u64,
            rule: "one evaluation = one decoding trial: a seeded set of exactly K+h distinct encoding symbols (uniform over all 2^24 ids, or a channel mixture of surviving source symbols topped up with uniformly drawn repair ids; never the trivial all-source set) handed to a fresh SourceBlockDecoder in one call, one call per symbol, K at once and the rest one by one, or the same with retransmitted copies of earlier symbols in between; failure = no call answered. Decision: exact binomial tests of the failure counts, pooled and per block-size band (K<=120, 121..1000 with 250..1000 sampled on purpose, large blocks 2000..10000), against the advertised bounds at alpha = 1e-9 each. distinct_nontrivial = distinct (K, h, symbol set) trials".into(),
            samples: acc.samples.clone(),
            extra: json!({
                "per_overhead": stats,
                "per_block_size_band": band_stats,
                "ratios": ratios,
                "highest_failure_rate_block_sizes_h0": worst_k,
                "per_mode": (0..4).map(|m| json!({"mode": MODE_NAMES[m], "trials": acc.per_mode[m][0], "failures": acc.per_mode[m][1]})).collect::<Vec<_>>(),
                "per_delivery": (0..5).map(|m| json!({"delivery": DELIVERY_NAMES[m], "trials": acc.per_delivery[m][0], "failures": acc.per_delivery[m][1]})).collect::<Vec<_>>(),
                "distinct_block_sizes": acc.per_k.len(),
                "alpha": ALPHA,
                "fault_kinds_fired": {"symbol_loss": "every trial (the erasure pattern is the fault sequence)"},
                "simulated_time": "not applicable",
                "real_components": ["SourceBlockEncoder", "SourceBlockDecoder", "solver", "constraint matrix / tuple generation"],
                "stub_components": ["erasure-pattern generator", "binomial test"],
            }),
            assumptions: vec![
                "block sizes pooled over the stated K distribution; the statement is about that distribution, not about every single K".into(),
                "a violation is only raised when the data refute the bound at alpha = 1e-9; 'bound_positively_supported' says whether the 99% upper confidence bound is below it".into(),
            ],
            wall_s: wall,
            violations: violations.len() as u64,
        },
    );
    println!(
        "C03 {}: trials {:?}, failures {:?}, {:.1}s",
        ctx.tier(),
        acc.n,
        acc.x,
        wall
    );
    let _ = Counters::default();
    report::conclude(ctx, &violations)
}

pub fn replay(ctx: &Ctx, doc: &serde_json::Value) -> i32 {
    let sc = &doc["scenario"];
    if sc["kind"] == "trial" {
        let t = Trial {
            k: sc["k"].as_u64().unwrap_or(1) as u32,
            h: sc["h"].as_u64().unwrap_or(0) as u32,
            mode: sc["mode"].as_u64().unwrap_or(0) as u8,
            esis: sc["esis"].as_array().map(|a| a.iter().filter_map(|x| x.as_u64()).map(|x| x as u32).collect()).unwrap_or_default(),
            data_seed: sc["data_seed"].as_u64().unwrap_or(0),
            delivery: sc["delivery"].as_u64().unwrap_or(0) as u8,
        };
        match run_trial(&t) {
            Ok(_) => {
                println!("replay: trial passes");
                0
            }
            Err(what) => {
                println!("VIOLATION property=C03 replay={} oracle={what} :: trial reproduces", doc["__path"].as_str().unwrap_or("?"));
                1
            }
        }
    } else {
        // statistical violation: re-run the same batch (deterministic for a given seed/tier/scale)
        let mut c = ctx.clone();
        c.seed = sc["seed"].as_u64().unwrap_or(ctx.seed);
        c.quick = sc["tier"].as_str().unwrap_or("quick") != "thorough";
        c.scale = sc["scale"].as_f64().unwrap_or(1.0);
        c.property = "C03".into();
        // evidence of a replay must not overwrite the check's evidence
        c.verif_dir = std::env::temp_dir().join("rqsim-c03-replay");
        let _ = std::fs::create_dir_all(&c.verif_dir);
        let code = run(&c);
        let _ = std::fs::remove_dir_all(&c.verif_dir);
        code
    }
}
