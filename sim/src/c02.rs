//! C02 — a block decodes exactly when the received symbols determine it. One block encoder, a lossy
//! channel generating an arrival sequence, one `SourceBlockDecoder`; after every step the decoder's
//! Some/None is compared with the independent rank oracle (`rank.rs`).

use crate::prng::{run_seed, Rng};
use crate::rank::{base_for, isi_of, lt_row, Basis, Params};
use crate::report::{self, ddmin, Evidence, Violation};
use crate::util::{guarded, panic_class, par_fold, Counters, Ctx, HashSet64};
use raptorq::{EncodingPacket, ObjectTransmissionInformation, SourceBlockDecoder};
use serde::{Deserialize, Serialize};
use serde_json::json;
use std::cell::RefCell;
use std::collections::{BTreeSet, HashMap};

#[derive(Clone, Debug, Serialize, Deserialize, PartialEq)]
pub struct BlockScenario {
    pub k: u32,
    pub t: u16,
    pub data_seed: u64,
    /// decoder's dense/sparse switch-over; None = shipped default
    pub threshold: Option<u32>,
    /// arrival sequence: each inner list is handed to decode() in one call
    pub steps: Vec<Vec<u32>>,
    /// explicit block content (hex, K*T octets) instead of the seeded one: content crafted so that
    /// every symbol of a rank-deficient received set is all-zero while the block is not
    #[serde(default, skip_serializing_if = "Option::is_none")]
    pub data_hex: Option<String>,
}

fn hex_of(b: &[u8]) -> String {
    b.iter().map(|x| format!("{x:02x}")).collect()
}

fn unhex(s: &str) -> Vec<u8> {
    (0..s.len() / 2).map(|i| u8::from_str_radix(&s[2 * i..2 * i + 2], 16).unwrap_or(0)).collect()
}

/// Block content in the kernel of a rank-deficient received set (see `data_hex`).
fn kernel_block(r: &mut Rng, pr: &Params, deficient: &Basis, t: u16) -> Option<String> {
    let c = deficient.kernel_vector(&mut || r.below(256) as u8)?;
    let mults: Vec<u8> = (0..t).map(|_| 1 + r.below(255) as u8).collect();
    let block = crate::rank::block_from_intermediate(pr, &c, &mults);
    if block.iter().all(|x| *x == 0) {
        return None; // cannot happen for a consistent oracle; the ordinary content is used instead
    }
    Some(hex_of(&block))
}

pub struct Fail {
    pub oracle: String,
    pub detail: String,
    pub at: usize,
}

thread_local! {
    static BASES: RefCell<HashMap<u32, (Params, Basis)>> = RefCell::new(HashMap::new());
}

fn base_cached(k: u32) -> (Params, Basis) {
    BASES.with(|b| {
        let mut b = b.borrow_mut();
        if b.len() > 64 {
            b.clear();
        }
        b.entry(k).or_insert_with(|| base_for(k)).clone()
    })
}

pub struct Outcome {
    pub prefix_checks: u64,
    pub oracle_runs: u64,
    pub singular_at_ge_k: u64,
    pub decoded: bool,
    pub final_set_hash: u64,
}

pub fn execute(sc: &BlockScenario, probes: &mut Counters, states: Option<&mut HashSet64>) -> Result<Outcome, Fail> {
    let k = sc.k;
    let cfg = ObjectTransmissionInformation::new(k as u64 * sc.t as u64, sc.t, 1, 1, 1);
    let built = guarded(|| {
        let entry = match &sc.data_hex {
            None => crate::c03::encoder_for(k, sc.t, sc.data_seed),
            Some(h) => {
                let mut data = unhex(h);
                data.resize(k as usize * sc.t as usize, 0);
                let enc = raptorq::SourceBlockEncoder::new(0, &cfg, &data);
                let src = enc.source_packets();
                std::rc::Rc::new((enc, src, data))
            }
        };
        let mut dec = SourceBlockDecoder::new(0, &cfg, k as u64 * sc.t as u64);
        if let Some(t) = sc.threshold {
            dec.verif_set_sparse_threshold(t);
        }
        (entry, dec)
    });
    let (entry, mut dec) = match built {
        Ok(x) => x,
        Err(p) => return Err(Fail { oracle: format!("setup-panic:{}", panic_class(&p)), detail: p, at: 0 }),
    };
    let (enc, source, data) = (&entry.0, &entry.1, &entry.2);
    let (pr, mut basis) = base_cached(k);
    let mut have: BTreeSet<u32> = BTreeSet::new();
    let mut src_have = 0u32;
    let mut out = Outcome { prefix_checks: 0, oracle_runs: 0, singular_at_ge_k: 0, decoded: false, final_set_hash: 0 };
    let mut states = states;
    let mut set_hash = (k as u64) << 40;
    let mut all_zero_so_far = true;
    if sc.steps.iter().map(|s| s.len()).sum::<usize>() < 4000 {
        // probe: receptions whose repair symbols were chosen for the weight of their LT rows
        let rep: Vec<u32> = sc.steps.iter().flatten().copied().filter(|e| *e >= k && *e < 1 << 24).collect();
        if rep.len() >= 4 {
            if rep.iter().all(|e| crate::rank::lt_degree(&pr, *e) >= 8) {
                probes.inc("all_repair_rows_heavy_degree_ge_8");
            } else if rep.iter().all(|e| crate::rank::lt_degree(&pr, *e) <= 2) {
                probes.inc("all_repair_rows_light_degree_le_2");
            }
        }
    }
    for (at, step) in sc.steps.iter().enumerate() {
        let mut packets: Vec<EncodingPacket> = vec![];
        for &e in step {
            if e >= 1 << 24 {
                continue;
            }
            let p = if e < k {
                source[e as usize].clone()
            } else {
                match guarded(|| enc.repair_packets(e - k, 1).swap_remove(0)) {
                    Ok(p) => p,
                    Err(p) => return Err(Fail { oracle: format!("encode-panic:{}", panic_class(&p)), detail: format!("repair packet {e}: {p}"), at }),
                }
            };
            packets.push(p);
            if have.insert(e) {
                if e < k {
                    src_have += 1;
                }
                let mut x = e as u64 ^ ((k as u64) << 32);
                set_hash ^= crate::prng::splitmix64(&mut x);
                if !basis.full() {
                    basis.insert(lt_row(&pr, isi_of(&pr, e)));
                    out.oracle_runs += 1;
                }
            } else {
                probes.inc("duplicate_in_sequence");
            }
        }
        if packets.is_empty() {
            continue;
        }
        if packets.len() > 1 {
            probes.inc("batched_step");
        }
        if packets.len() > 65_000 {
            probes.inc("hoarded_flood_over_65536_rows");
        }
        let n = have.len() as u32;
        let all_source = src_have == k;
        if sc.data_hex.is_some() {
            all_zero_so_far &= packets.iter().all(|p| p.data().iter().all(|x| *x == 0));
            if all_zero_so_far && n >= k && !basis.full() {
                probes.inc("all_zero_symbols_of_nonzero_block_at_ge_k");
            }
        }
        let expected = all_source || (n >= k && basis.full());
        if n >= k && !basis.full() && !all_source {
            out.singular_at_ge_k += 1;
        }
        // received + padding >= K' + H  <=>  the GF(2)-only attempt is eligible
        if n + (pr.kp - k) >= pr.kp + pr.h && !all_source {
            probes.inc("no_hdpc_attempt_eligible");
            if !expected {
                probes.inc("no_hdpc_eligible_but_singular");
            }
        }
        let got = match guarded(|| dec.decode(packets)) {
            Ok(g) => g,
            Err(p) => {
                return Err(Fail { oracle: format!("panic:{}", panic_class(&p)), detail: format!("decode panicked with {n} distinct symbols of a {k}-symbol block: {p}"), at })
            }
        };
        out.prefix_checks += 1;
        if let Some(st) = states.as_deref_mut() {
            st.insert(set_hash);
        }
        match (&got, expected) {
            (None, true) => {
                let why = if all_source { "all source symbols present".to_string() } else { format!("constraint matrix has full rank {}", pr.l) };
                return Err(Fail { oracle: "lost-decode".into(), detail: format!("K={k} (K'={}), {n} distinct symbols ({src_have} source): {why}, decoder answered None", pr.kp), at });
            }
            (Some(_), false) => {
                return Err(Fail { oracle: "bogus-decode".into(), detail: format!("K={k} (K'={}), {n} distinct symbols ({src_have} source): rank {} < L = {}, decoder answered Some", pr.kp, basis.rank, pr.l), at });
            }
            (Some(v), true) => {
                if v != data {
                    return Err(Fail { oracle: "wrong-block".into(), detail: format!("K={k}: decoded block differs from the source block"), at });
                }
                if n == k && !all_source {
                    probes.inc("decoded_at_exactly_k_by_solving");
                }
                if src_have == 0 {
                    probes.inc("decoded_from_repair_only");
                }
                out.decoded = true;
                break;
            }
            (None, false) => {}
        }
    }
    out.final_set_hash = set_hash;
    Ok(out)
}

const K_POOL_QUICK: [u32; 30] = [1, 2, 3, 5, 9, 10, 11, 12, 13, 18, 19, 20, 26, 27, 31, 32, 33, 40, 46, 55, 56, 60, 69, 75, 84, 90, 101, 102, 110, 120];

/// "Redundant flood": all but one or two source symbols arrive, then dozens of repair symbols that
/// the oracle knows to be linearly dependent on what is already held (they do not involve the
/// missing symbols), and only then symbols that complete the rank. The decoder sees >= K symbols of
/// deficient rank for a long stretch, with far more surplus rows than inactivated columns.
fn generate_flood(r: &mut Rng, k: u32, t: u16, threshold: Option<u32>) -> Option<BlockScenario> {
    if k < 2 {
        return None;
    }
    let (pr, mut basis) = base_cached(k);
    let nmiss = r.urange(1, 2.min(k as usize - 1));
    let mut missing: Vec<u32> = vec![];
    while missing.len() < nmiss {
        let e = r.below(k as u64) as u32;
        if !missing.contains(&e) {
            missing.push(e);
        }
    }
    let sources: Vec<u32> = (0..k).filter(|e| !missing.contains(e)).collect();
    for e in &sources {
        basis.insert(lt_row(&pr, isi_of(&pr, *e)));
    }
    let room = (1u32 << 24) - k;
    let want = r.urange(20, 90);
    let mut redundant: Vec<u32> = vec![];
    let mut tries = 0;
    while redundant.len() < want && tries < 2000 {
        tries += 1;
        let e = k + r.below(room as u64) as u32;
        if redundant.contains(&e) {
            continue;
        }
        let mut b2 = basis.clone();
        if !b2.insert(lt_row(&pr, isi_of(&pr, e))) {
            redundant.push(e);
        }
    }
    if redundant.len() < 10 {
        return None;
    }
    let deficient = basis.clone();
    // informative symbols until the oracle's rank is full
    let mut informative: Vec<u32> = vec![];
    let mut tries = 0;
    while !basis.full() && tries < 500 {
        tries += 1;
        let e = k + r.below(room as u64) as u32;
        if redundant.contains(&e) || informative.contains(&e) {
            continue;
        }
        if basis.insert(lt_row(&pr, isi_of(&pr, e))) {
            informative.push(e);
        }
    }
    let mut sources = sources;
    r.shuffle(&mut sources);
    let mut steps: Vec<Vec<u32>> = vec![];
    if r.chance(1, 2) {
        steps.push(sources);
    } else {
        for e in sources {
            steps.push(vec![e]);
        }
    }
    // the flood: singles, or a few batches
    if r.chance(2, 3) {
        for e in &redundant {
            steps.push(vec![*e]);
        }
    } else {
        for c in redundant.chunks(r.urange(2, 30)) {
            steps.push(c.to_vec());
        }
    }
    for e in informative {
        steps.push(vec![e]);
    }
    // half of the floods carry content from the kernel of the deficient set: every symbol received
    // before the informative ones is all-zero although the block is not
    let data_hex = if r.chance(1, 2) { kernel_block(r, &pr, &deficient, t) } else { None };
    Some(BlockScenario { k, t, data_seed: 0x0C02_0000 + ((k as u64) << 8) + t as u64, threshold, steps, data_hex })
}

pub fn generate(seed: u64, quick: bool) -> BlockScenario {
    let mut r = Rng::new(seed);
    let k: u32 = if quick {
        if r.chance(1, 1000) {
            // a few large blocks in the quick tier too (the oracle costs about a second each here)
            r.range(121, 1200) as u32
        } else if r.chance(3, 4) {
            *r.pick(&K_POOL_QUICK)
        } else {
            r.range(1, 120) as u32
        }
    } else {
        match r.below(1000) {
            0..=599 => r.range(1, 120) as u32,
            600..=949 => r.range(121, 300) as u32,
            950..=996 => r.range(301, 600) as u32,
            _ => r.range(601, 1200) as u32,
        }
    };
    let pr = crate::rank::params(k);
    let t = *r.pick(&[1u16, 1, 2, 4, 8]);
    let threshold = match r.below(4) {
        0 | 1 => None,
        2 => Some(0),
        _ => Some(100_000),
    };
    if r.chance(1, 20_000) {
        // a hoarding receiver: all but a few source symbols and ~2^16 repair symbols in one call
        // (a constraint matrix of more than 65 536 rows; the rank is full beyond reasonable doubt
        // and the oracle confirms it)
        let k = if r.chance(1, 4) { r.range(250, 300) as u32 } else { r.range(4, 40) as u32 };
        let n = 65_400 + r.below(800) as u32;
        let room = (1u32 << 24) - k;
        let start = match r.below(3) {
            0 => 0,
            1 => r.below((room - n) as u64) as u32,
            _ => room - n,
        };
        let withheld = 1 + r.below(k.min(4) as u64) as u32;
        let mut batch: Vec<u32> = (withheld..k).collect();
        batch.extend((0..n).map(|i| k + start + i));
        if r.chance(1, 2) {
            r.shuffle(&mut batch);
        }
        return BlockScenario { k, t, data_seed: 0x0C02_0000 + ((k as u64) << 8) + t as u64, threshold, steps: vec![batch], data_hex: None };
    }
    if k <= 130 && r.chance(1, 12) {
        if let Some(sc) = generate_flood(&mut r, k, t, threshold) {
            return sc;
        }
    }
    // which symbols arrive: a share of the source symbols, topped up with repair symbols
    let src_share = *r.pick(&[0u32, 0, 60, 90, 90, 100]);
    let mut pool: Vec<u32> = (0..k).filter(|_| r.below(100) < src_share as u64).collect();
    if src_share == 100 && k > 1 && r.chance(3, 4) {
        // lose a few
        for _ in 0..r.urange(1, 3.min(k as usize - 1)) {
            let i = r.usize_below(pool.len());
            pool.swap_remove(i);
        }
    }
    // adversarial redundancy: both members of a few "twin" pairs (identical LT rows) arrive early
    let twins: Vec<(u32, u32)> = if r.chance(1, 4) {
        let n = r.urange(1, 4);
        crate::rank::twin_esis(k, n, &mut |m| r.usize_below(m))
    } else {
        vec![]
    };
    let target = k + r.range(0, 4) as u32 + twins.len() as u32; // distinct symbols to reach
    if !twins.is_empty() {
        // make room: with twins the interesting states are those where the count is >= K
        while pool.len() as u32 + 2 * twins.len() as u32 > target && !pool.is_empty() {
            let i = r.usize_below(pool.len());
            pool.swap_remove(i);
        }
    }
    let mut have: BTreeSet<u32> = pool.iter().copied().collect();
    let mut twin_list: Vec<u32> = vec![];
    for (a, b) in &twins {
        for e in [*a, *b] {
            if have.insert(e) {
                twin_list.push(e);
            }
        }
    }
    let room = (1u32 << 24) - k;
    // adversarial weight: in an eighth of the sequences every repair symbol is chosen, with the oracle's
    // own Tuple[], to have a heavy LT row (degree >= 8 / 12 / 20: the first phase finds few rows with one
    // or two ones in V and has to inactivate far more columns than for an ordinary reception) or a
    // light one (degree <= 2). Legal ids like any others; the rank oracle decides what must happen.
    let weight: Option<(u32, u32)> = if twins.is_empty() && r.chance(1, 8) {
        Some(*r.pick(&[(8u32, u32::MAX), (12, u32::MAX), (12, u32::MAX), (20, u32::MAX), (0, 2)]))
    } else {
        None
    };
    while (have.len() as u32) < target {
        if let Some((lo, hi)) = weight {
            let mut found = None;
            for _ in 0..3000 {
                let e = k + r.below(room as u64) as u32;
                let d = crate::rank::lt_degree(&pr, e);
                if d >= lo && d <= hi && !have.contains(&e) {
                    found = Some(e);
                    break;
                }
            }
            if let Some(e) = found {
                have.insert(e);
                pool.push(e);
                continue;
            }
        }
        let e = match r.below(10) {
            0..=5 => k + r.below(room as u64) as u32,              // anywhere in the 24-bit range
            6 | 7 => k + r.below((k as u64 * 2 + 8).min(room as u64)) as u32, // right after the source ids
            8 => (1u32 << 24) - 1 - r.below(64.min(room as u64)) as u32, // the last ids
            _ => k + r.below(room as u64) as u32,
        };
        if have.insert(e) {
            pool.push(e);
        }
    }
    r.shuffle(&mut pool);
    if !twin_list.is_empty() {
        // twins arrive among the first symbols (they are what the decoder tries first)
        let mut head = twin_list.clone();
        let take = pool.len().min(r.usize_below(4));
        head.extend(pool.drain(..take));
        r.shuffle(&mut head);
        head.extend(pool.drain(..));
        pool = head;
    }
    // batch structure: an initial batch (no attempt inside it), then single arrivals
    let over_hdpc = (pr.h + 1).min(4) + pr.h; // enough extra symbols to make the GF(2)-only attempt eligible
    let first = match if twin_list.is_empty() { r.below(8) } else { r.below(5) } {
        0 | 1 => 0,
        2 => k.saturating_sub(2),
        3 => k.saturating_sub(1),
        4 => k,
        5 => k + 1,
        _ => k + over_hdpc, // high overhead: extend the pool below
    } as usize;
    if first > pool.len() {
        while pool.len() < first + 2 {
            let e = k + r.below(room as u64) as u32;
            if have.insert(e) {
                pool.push(e);
            }
        }
    }
    let mut steps: Vec<Vec<u32>> = vec![];
    let first = first.min(pool.len());
    if first > 0 {
        let mut batch = pool[..first].to_vec();
        if first >= 2 && r.chance(1, 5) {
            // duplicated packets inside the batch: anywhere, or as its very last element
            let d = *r.pick(&batch);
            if r.chance(1, 2) {
                batch.push(d);
            } else {
                let at = r.usize_below(batch.len());
                batch.insert(at, d);
            }
        }
        steps.push(batch);
    }
    for e in &pool[first..] {
        if r.chance(1, 25) {
            // a call that carries a fresh symbol followed by a copy of an earlier one
            let d = *r.pick(&pool);
            steps.push(vec![*e, d]);
            continue;
        }
        steps.push(vec![*e]);
        if r.chance(1, 30) {
            // a duplicate arrival
            let d = *r.pick(&pool);
            steps.push(vec![d]);
        }
    }
    // twins: content from the kernel of the longest rank-deficient prefix of >= K symbols, if any
    let mut data_hex = None;
    if !twin_list.is_empty() && k <= 130 && r.chance(1, 2) {
        let (pr, mut basis) = base_cached(k);
        let mut seen: BTreeSet<u32> = BTreeSet::new();
        let mut deficient: Option<Basis> = None;
        for e in steps.iter().flatten() {
            if seen.insert(*e) {
                basis.insert(lt_row(&pr, isi_of(&pr, *e)));
            }
            if basis.full() {
                break;
            }
            if seen.len() as u32 >= k {
                deficient = Some(basis.clone());
            }
        }
        if let Some(d) = deficient {
            data_hex = kernel_block(&mut r, &pr, &d, t);
        }
    }
    // otherwise the block content is irrelevant to decodability: one content per (K, T) lets encoders be shared
    BlockScenario { k, t, data_seed: 0x0C02_0000 + ((k as u64) << 8) + t as u64, threshold, steps, data_hex }
}

const STREAM: u64 = 2;

fn fails_same(sc: &BlockScenario, oracle: &str) -> Option<Fail> {
    let mut c = Counters::default();
    match execute(sc, &mut c, None) {
        Err(f) if f.oracle == oracle => Some(f),
        _ => None,
    }
}

pub fn minimise(sc: &BlockScenario, oracle: &str) -> BlockScenario {
    // bounded effort: a sequence for a large block costs about a second per execution
    let deadline = crate::util::deadline_after(90);
    let fails_same = |c: &BlockScenario, name: &str| -> Option<Fail> {
        if std::time::Instant::now() > deadline {
            return None;
        }
        fails_same(c, name)
    };
    let mut best = sc.clone();
    if let Some(f) = fails_same(&best, oracle) {
        let mut t = best.clone();
        t.steps.truncate((f.at + 1).min(t.steps.len()));
        if fails_same(&t, oracle).is_some() {
            best = t;
        }
    } else {
        return best;
    }
    // merge everything into one batch if the failure survives (then ddmin over symbols)
    let flat: Vec<u32> = best.steps.iter().flatten().copied().collect();
    let one = BlockScenario { steps: vec![flat.clone()], ..best.clone() };
    if fails_same(&one, oracle).is_some() {
        let min = ddmin(&flat, |cand| fails_same(&BlockScenario { steps: vec![cand.to_vec()], ..best.clone() }, oracle).is_some());
        best.steps = vec![min];
    } else {
        let steps = ddmin(&best.steps, |cand| fails_same(&BlockScenario { steps: cand.to_vec(), ..best.clone() }, oracle).is_some());
        best.steps = steps;
    }
    let c = BlockScenario { threshold: None, ..best.clone() };
    if fails_same(&c, oracle).is_some() {
        best = c;
    }
    best
}

fn to_violation(ctx: &Ctx, run: u64, sc: &BlockScenario, f: &Fail, min_from: Option<(usize, usize)>) -> Violation {
    Violation {
        property: "C02".into(),
        oracle: f.oracle.clone(),
        signature: format!("block:{}:K={}", f.oracle, sc.k),
        seed: ctx.seed,
        run,
        engine: "block",
        observed: format!("step #{}: {}", f.at, f.detail),
        scenario: serde_json::to_value(sc).unwrap(),
        minimised_from: min_from,
    }
}

#[derive(Default)]
struct Acc {
    runs: u64,
    prefix_checks: u64,
    oracle_rows: u64,
    singular: u64,
    decoded: u64,
    probes: Counters,
    states: HashSet64,
    singular_states: HashSet64,
    kprimes: BTreeSet<u32>,
    samples: Vec<serde_json::Value>,
}

pub fn run(ctx: &Ctx) -> i32 {
    let t0 = std::time::Instant::now();
    if let Err(e) = crate::rank::self_check() {
        eprintln!("HARNESS-ERROR: rank oracle self-check failed: {e}");
        return 2;
    }
    let n = ctx.runs(200_000, 4_000_000);
    let seed = ctx.seed;
    let quick = ctx.quick;
    let (acc, fail) = par_fold(
        n,
        ctx.workers,
        64,
        |run, acc: &mut Acc| {
            let sc = generate(run_seed(seed, STREAM, run), quick);
            acc.runs += 1;
            acc.kprimes.insert(crate::rank::params(sc.k).kp);
            match execute(&sc, &mut acc.probes, Some(&mut acc.states)) {
                Ok(o) => {
                    acc.prefix_checks += o.prefix_checks;
                    acc.oracle_rows += o.oracle_runs;
                    acc.singular += o.singular_at_ge_k;
                    if o.singular_at_ge_k > 0 {
                        acc.singular_states.insert(o.final_set_hash);
                    }
                    acc.decoded += o.decoded as u64;
                    if run < 3 {
                        acc.samples.push(json!({"run": run, "scenario": sc}));
                    }
                    Ok(())
                }
                Err(f) => Err((sc, f)),
            }
        },
        |a, b| {
            a.runs += b.runs;
            a.prefix_checks += b.prefix_checks;
            a.oracle_rows += b.oracle_rows;
            a.singular += b.singular;
            a.decoded += b.decoded;
            a.probes.merge(&b.probes);
            a.states.merge(b.states);
            a.singular_states.merge(b.singular_states);
            a.kprimes.extend(b.kprimes);
            a.samples.extend(b.samples);
        },
        Acc::default(),
    );
    let mut violations = vec![];
    if let Some((run, (sc, f))) = fail {
        let from: usize = sc.steps.iter().map(|s| s.len()).sum();
        let min = minimise(&sc, &f.oracle);
        let to: usize = min.steps.iter().map(|s| s.len()).sum();
        let f2 = fails_same(&min, &f.oracle).unwrap_or(f);
        violations.push(to_violation(ctx, run, &min, &f2, Some((from, to))));
    }
    let mut probes = acc.probes.clone();
    for k in ["no_hdpc_attempt_eligible", "decoded_at_exactly_k_by_solving", "decoded_from_repair_only", "duplicate_in_sequence", "batched_step", "all_zero_symbols_of_nonzero_block_at_ge_k", "hoarded_flood_over_65536_rows", "all_repair_rows_heavy_degree_ge_8", "all_repair_rows_light_degree_le_2"] {
        probes.touch(k);
    }
    probes.add("singular_at_ge_k_prefixes", acc.singular);
    // (the skewed-clock slice is a tenth of a batch: rare session kinds may well be absent from it)
    if violations.is_empty() && ctx.slice_rate.is_none() {
        for z in probes.zeros() {
            eprintln!("WARNING: C02 probe '{z}' never fired in this batch");
        }
    }
    let wall = t0.elapsed().as_secs_f64() / crate::clock::rate() as f64; // real seconds, also under a fast clock
    report::write_evidence(
        ctx,
        &Evidence {
            level: "exploration",
            evaluations: acc.runs,
            distinct_nontrivial: acc.states.len() as u64,
            rule: "one evaluation = one seeded arrival sequence (erasure pattern incl. source/repair mix, repair ESIs anywhere in the 24-bit range, initial batch, single arrivals, occasional duplicates) for one block; after every decode() call Some/None is compared with 'all source symbols present or rank(RFC constraint matrix of the received set) = L' computed by the harness's own matrix builder and GF(256) elimination. distinct_nontrivial = distinct (K, received-set) pairs at which a comparison was made".into(),
            samples: acc.samples.clone(),
            extra: json!({
                "prefix_comparisons": acc.prefix_checks,
                "oracle_rows_eliminated": acc.oracle_rows,
                "sequences_decoded": acc.decoded,
                "distinct_singular_sets_at_ge_k": acc.singular_states.len(),
                "distinct_k_prime": acc.kprimes.len(),
                "probes": probes.to_json(),
                "fault_kinds_fired": {"symbol_loss": "every sequence (the erasure pattern is the fault sequence)", "duplicate": acc.probes.get("duplicate_in_sequence"), "batch": acc.probes.get("batched_step")},
                "simulated_time": "not applicable; one step = one decode() call",
                "real_components": ["SourceBlockEncoder", "SourceBlockDecoder (case analysis, GF(2)-only attempt, fall-back, solver, both matrix back-ends)"],
                "stub_components": ["channel (erasure pattern generator)", "rank oracle (independent constraint-matrix builder + GF(256) elimination)"],
            }),
            assumptions: vec![
                "numeric tables V0..V3 and Table 2 are vendored from the pinned commit (no independent copy of RFC 6330 on this host); the matrix structure, Rand/Deg/Tuple and the field arithmetic are written from the RFC".into(),
                format!("K <= 1200; {} of the sequences above 120", if quick { "0.1 %" } else { "40 %" }),
            ],
            wall_s: wall,
            violations: violations.len() as u64,
        },
    );
    println!(
        "C02 {}: {} sequences, {} prefix comparisons, {} singular-at->=K prefixes, {} distinct K', {:.1}s",
        ctx.tier(),
        acc.runs,
        acc.prefix_checks,
        acc.singular,
        acc.kprimes.len(),
        wall
    );
    report::conclude(ctx, &violations)
}

pub fn replay(ctx: &Ctx, doc: &serde_json::Value) -> i32 {
    let sc: BlockScenario = match serde_json::from_value(doc["scenario"].clone()) {
        Ok(s) => s,
        Err(e) => {
            eprintln!("HARNESS-ERROR: bad block scenario: {e}");
            return 2;
        }
    };
    let mut c = Counters::default();
    match execute(&sc, &mut c, None) {
        Ok(_) => {
            println!("replay: sequence passes");
            0
        }
        Err(f) => {
            let v = to_violation(ctx, doc["run"].as_u64().unwrap_or(0), &sc, &f, None);
            println!("VIOLATION property=C02 replay={} oracle={} :: {}", doc["__path"].as_str().unwrap_or("?"), v.oracle, v.observed);
            1
        }
    }
}
