//! C07 — results depend only on the inputs, not on build, CPU kernel, back-end or caching.
//!
//! The same seeded transfer scenarios are executed in four builds of this binary ({release,
//! checked} x {raptorq std, raptorq no_std}); inside every build each scenario is executed twice,
//! under its drawn knob vector A and under an independently drawn knob vector B (kernel level,
//! encoder construction / plan source and dense-sparse threshold per replica, decoder threshold per
//! receiver). The transcript (OTI bytes, every packet emitted, every receiver outcome after every
//! delivery) must be identical everywhere.

use crate::net::*;
use crate::netcheck::oracles_for;
use crate::prng::{run_seed, Rng};
use crate::report::{self, ddmin, Evidence, Violation};
use crate::sim::{simulate, Profile};
use crate::util::{par_fold, Counters, Ctx, HashSet64};
use serde_json::{json, Value};
use std::collections::BTreeMap;
use std::io::Write;
use std::process::{Command, Stdio};

pub const SMALL_MAX_K: u32 = 120;
pub const LARGE_MAX_K: u32 = 400;
const STREAM_SMALL: u64 = 7;
const STREAM_LARGE: u64 = 77;
pub const XL_MAX_K: u32 = 1300;
const STREAM_XL: u64 = 777;
pub const XXL_MAX_K: u32 = 9000;
const STREAM_XXL: u64 = 7777;
/// giant blocks (20000..56403 symbols, the largest the code supports): release builds, a handful
pub const GIANT_MAX_K: u32 = 56403;
const STREAM_GIANT: u64 = 77777;
/// medium band 121..180 for all four builds (the checked builds cost seconds per scenario here)
pub const MEDIUM_MAX_K: u32 = 180;
const STREAM_MEDIUM: u64 = 70;

pub fn flavour_name() -> &'static str {
    match (cfg!(debug_assertions), cfg!(feature = "rq-std")) {
        (false, true) => "release-std",
        (true, true) => "checked-std",
        (false, false) => "release-nostd",
        (true, false) => "checked-nostd",
    }
}

/// knob vector B for a scenario: same observable workload, different environment
pub fn knob_b(setup: &Setup, seed: u64) -> Setup {
    let mut r = Rng::new(seed ^ 0xB0B0_B0B0);
    let mut s = setup.clone();
    let levels = [Kernel::Auto, Kernel::Portable, Kernel::Ssse3, Kernel::Avx2, Kernel::Avx512];
    let supported: Vec<Kernel> = levels.iter().copied().filter(|k| kernel_supported(*k)).collect();
    s.kernel = *r.pick(&supported);
    for c in s.replicas.iter_mut() {
        // mostly the opposite family (plan replay <-> direct solve), sometimes anything
        let direct = matches!(c, Ctor::Unplanned { .. });
        let pick = if r.chance(2, 3) {
            if direct {
                r.below(4)
            } else {
                4
            }
        } else {
            r.below(6)
        };
        *c = match pick {
            0 => Ctor::New,
            1 => Ctor::Plan,
            2 => Ctor::PlanShared,
            3 => Ctor::EncoderNew,
            _ => Ctor::Unplanned { threshold: *r.pick(&[0u32, 250, 100_000]) },
        };
    }
    for rx in s.receivers.iter_mut() {
        rx.threshold = match r.below(3) {
            0 => None,
            1 => Some(0),
            _ => Some(100_000),
        };
    }
    s
}

fn knob_key(s: &Setup) -> String {
    format!(
        "{:?}|{}|{}",
        s.kernel,
        s.replicas.iter().map(|c| format!("{c:?}")).collect::<Vec<_>>().join(","),
        s.receivers.iter().map(|r| format!("{:?}", r.threshold)).collect::<Vec<_>>().join(",")
    )
}

/// transcript digest (and optionally the lines) of a resolved scenario under a given setup
pub fn transcript_of(setup: &Setup, events: &[Event], verbose: bool) -> (String, Vec<String>, Counters) {
    if crate::alloc::enabled() {
        // allocator seam: placement / fill knobs of this execution (RQSIM_ALLOC_KEY when re-executing a
        // particular scenario of the batch, a function of the configuration otherwise)
        let key = std::env::var("RQSIM_ALLOC_KEY").ok().and_then(|k| k.parse().ok()).unwrap_or(setup.oti.f ^ ((setup.oti.t as u64) << 40));
        crate::alloc::set_knobs_for(key);
    }
    let sc = Scenario { setup: setup.clone(), events: events.to_vec() };
    let (ex, res) = run_scenario(&sc, Oracles::default(), true, verbose);
    match (ex, res) {
        (Some(ex), _) => {
            let t = ex.transcript.unwrap();
            (t.digest.hex(), t.lines.unwrap_or_default(), ex.counters)
        }
        (None, Err(f)) => (format!("setup-failed:{}", f.oracle), vec![format!("setup failed: {}", f.detail)], Counters::default()),
        (None, Ok(())) => ("?".into(), vec![], Counters::default()),
    }
}

pub struct Digests {
    pub a: String,
    pub b: String,
    pub events: usize,
    pub ticks: u64,
    pub scenario: Scenario,
    pub setup_b: Setup,
    pub faults: Counters,
}

/// scenario `idx` of a stream: live simulation under knob vector A, re-execution under B
pub fn digests_for(seed: u64, stream: u64, idx: u64, max_k: u32) -> Digests {
    let s = run_seed(seed, stream, idx);
    if crate::alloc::enabled() {
        crate::alloc::set_knobs_for(s);
    }
    let out = simulate(s, Profile::C07, oracles_for(Profile::C07), true, max_k);
    let a = match (&out.exec, &out.result) {
        (Some(ex), _) => ex.transcript.as_ref().unwrap().digest.hex(),
        (None, Err(f)) => format!("setup-failed:{}", f.oracle),
        _ => "?".into(),
    };
    let setup_b = knob_b(&out.scenario.setup, s);
    let (b, _, _) = transcript_of(&setup_b, &out.scenario.events, false);
    Digests { a, b, events: out.scenario.events.len(), ticks: out.ticks, scenario: out.scenario, setup_b, faults: out.faults }
}

// ------------------------------------------------------------------------------------------------
// seeded hazards: ESIs at which Rand's 32-bit additions wrap (found by modular inverse, not by luck)

fn inv_mod_2_32(a: u32) -> u32 {
    // Newton iteration for odd a
    let mut x: u32 = a;
    for _ in 0..5 {
        x = x.wrapping_mul(2u32.wrapping_sub(a.wrapping_mul(x)));
    }
    x
}

#[derive(Clone, Debug)]
pub struct Hazard {
    pub k: u32,
    pub kp: u32,
    pub isi: u32,
    pub esi: u32,
    pub y: u32,
}

pub fn hazards() -> Vec<Hazard> {
    let mut v = vec![];
    let t2 = &crate::tables::T2;
    for (i, &(kp, j, _s, _h, _w)) in t2.iter().enumerate() {
        let kmin = if i == 0 { 1 } else { t2[i - 1].0 + 1 };
        let mut a = 53591u32 + j * 997;
        if a % 2 == 0 {
            a += 1;
        }
        let b = 10267u32.wrapping_mul(j + 1);
        for y in [u32::MAX, u32::MAX - 1] {
            let x = y.wrapping_sub(b).wrapping_mul(inv_mod_2_32(a));
            debug_assert_eq!(b.wrapping_add(x.wrapping_mul(a)), y);
            // x is an internal symbol id; repair ISIs are K'..K'+2^24-K
            if x < kp {
                v.push(Hazard { k: kp, kp, isi: x, esi: x, y });
                continue;
            }
            // choose K (kmin..=kp) such that esi = x - (kp - k) is a legal repair id
            for k in [kp, kmin] {
                let shift = kp - k;
                if x >= shift + k && x - shift < (1 << 24) {
                    v.push(Hazard { k, kp, isi: x, esi: x - shift, y });
                    break;
                }
            }
        }
    }
    v
}

pub fn hazard_scenario(h: &Hazard) -> Scenario {
    let t = 1u16;
    let setup = Setup {
        oti: Oti { f: h.k as u64 * t as u64, t, z: 1, n: 1, al: 1 },
        data: DataSpec::Count,
        replicas: vec![Ctor::PlanShared],
        receivers: vec![RxSpec { kind: RxKind::Block, threshold: None, mirror: None }],
        kernel: Kernel::Auto,
        warm: vec![],
        fresh_check: false,
    };
    let mut events = vec![];
    if h.esi >= h.k {
        events.push(Event::Window { replica: 0, sbn: 0, s: h.esi - h.k, n: 1 });
    }
    // all source symbols but one, plus the hazardous symbol: the decoder has to solve with its row
    let mut batch: Vec<Frame> = (0..h.k).filter(|e| *e != h.k / 2 && *e != h.esi).map(|e| Frame { replica: 0, sbn: 0, esi: e }).collect();
    batch.push(Frame { replica: 0, sbn: 0, esi: h.esi });
    if h.esi < h.k {
        batch.push(Frame { replica: 0, sbn: 0, esi: h.k + 7 });
    }
    events.push(Event::Deliver { rx: 0, batch });
    Scenario { setup, events }
}

// ------------------------------------------------------------------------------------------------
// sub-commands used between the four binaries

/// `rqsim c07-digests <seed> <stream> <from> <to> <max_k>`: one JSON line per scenario
pub fn cmd_digests(args: &[String]) -> i32 {
    let seed: u64 = args[0].parse().unwrap();
    let stream: u64 = args[1].parse().unwrap();
    let from: u64 = args[2].parse().unwrap();
    let to: u64 = args[3].parse().unwrap();
    let max_k: u32 = args[4].parse().unwrap();
    let workers = std::env::var("VERIF_WORKERS").ok().and_then(|s| s.parse().ok()).unwrap_or(8usize);
    let (lines, _) = par_fold(
        to - from,
        workers,
        16,
        |i, acc: &mut Vec<String>| -> Result<(), ()> {
            let idx = from + i;
            let d = digests_for(seed, stream, idx, max_k);
            acc.push(json!({"idx": idx, "a": d.a, "b": d.b, "kb": knob_key(&d.setup_b)}).to_string());
            Ok(())
        },
        |a, b| a.extend(b),
        vec![],
    );
    let out = std::io::stdout();
    let mut out = out.lock();
    for l in lines {
        let _ = writeln!(out, "{l}");
    }
    0
}

/// `rqsim c07-exec <file> [verbose]`: file = {"setup":…, "events":[…]}; prints {"digest":…, "lines":[…]}
pub fn cmd_exec(args: &[String]) -> i32 {
    let text = std::fs::read_to_string(&args[0]).expect("read");
    let v: Value = serde_json::from_str(&text).expect("parse");
    let setup: Setup = serde_json::from_value(v["setup"].clone()).expect("setup");
    let events: Vec<Event> = serde_json::from_value(v["events"].clone()).expect("events");
    let verbose = args.get(1).map(|s| s == "verbose").unwrap_or(false);
    let (d, lines, _) = transcript_of(&setup, &events, verbose);
    println!("{}", json!({"digest": d, "lines": lines, "flavour": flavour_name()}));
    0
}

/// the allocator-seam flavour: this very binary with RQSIM_ALLOC=1 (see alloc.rs)
pub const ALLOC_FLAVOUR: &str = "release-std-alloc";
fn alloc_env() -> Option<String> {
    std::env::current_exe().ok().map(|p| format!("{}#alloc", p.display()))
}
/// "path", "path#alloc" or "path#alloc=<key>" -> command with the environment of that flavour
fn command_for(env: &str) -> Command {
    match env.split_once("#alloc") {
        Some((path, rest)) => {
            let mut c = Command::new(path);
            c.env("RQSIM_ALLOC", "1");
            if let Some(k) = rest.strip_prefix('=') {
                c.env("RQSIM_ALLOC_KEY", k);
            } else {
                c.env_remove("RQSIM_ALLOC_KEY");
            }
            c
        }
        None => {
            let mut c = Command::new(env);
            c.env_remove("RQSIM_ALLOC").env_remove("RQSIM_ALLOC_KEY");
            c
        }
    }
}

fn other_binaries() -> Vec<(&'static str, String)> {
    let mut v = vec![];
    for (name, var) in [("checked-std", "RQSIM_BIN_CHECKED_STD"), ("release-nostd", "RQSIM_BIN_RELEASE_NOSTD"), ("checked-nostd", "RQSIM_BIN_CHECKED_NOSTD")] {
        if let Ok(p) = std::env::var(var) {
            if std::path::Path::new(&p).exists() {
                v.push((name, p));
            }
        }
    }
    v
}

/// A sub-process killed by a signal (or aborting) while it executes the code under test is a result,
/// not a harness error: the first scenario index that kills it is found by bisection over prefixes and
/// entered with the digest "process-died"; the comparison with this binary's digest then reports it.
fn remote_digests(bin: &str, seed: u64, stream: u64, from: u64, to: u64, max_k: u32, workers: usize) -> Result<BTreeMap<u64, (String, String, String)>, String> {
    match remote_digests_once(bin, seed, stream, from, to, max_k, workers) {
        Ok(m) => Ok(m),
        Err((e, false)) => Err(e),
        Err((e, true)) => {
            eprintln!("note: {e}; looking for the first scenario that kills the process");
            // invariant: [from, lo) survives, [from, hi) dies
            let (mut lo, mut hi) = (from, to);
            let mut good: BTreeMap<u64, (String, String, String)> = BTreeMap::new();
            while hi - lo > 1 {
                let mid = lo + (hi - lo) / 2;
                match remote_digests_once(bin, seed, stream, from.max(lo), mid, max_k, workers) {
                    Ok(m) => {
                        good.extend(m);
                        lo = mid;
                    }
                    Err((_, true)) => hi = mid,
                    Err((e, false)) => return Err(e),
                }
            }
            // scenario `lo` alone
            match remote_digests_once(bin, seed, stream, lo, lo + 1, max_k, 1) {
                Ok(_) => Err(format!("{bin} c07-digests dies on [{from},{to}) but on no single scenario (not reproducible)")),
                Err((_, true)) => {
                    good.insert(lo, ("process-died".into(), "process-died".into(), String::new()));
                    Ok(good)
                }
                Err((e, false)) => Err(e),
            }
        }
    }
}

/// Err((message, died)) - died = the process was killed by a signal / aborted rather than failing to start
fn remote_digests_once(bin: &str, seed: u64, stream: u64, from: u64, to: u64, max_k: u32, workers: usize) -> Result<BTreeMap<u64, (String, String, String)>, (String, bool)> {
    let out = command_for(bin)
        .args(["c07-digests", &seed.to_string(), &stream.to_string(), &from.to_string(), &to.to_string(), &max_k.to_string()])
        .env("VERIF_WORKERS", workers.to_string())
        .stderr(Stdio::null())
        .output()
        .map_err(|e| (format!("cannot run {bin}: {e}"), false))?;
    if !out.status.success() {
        // exit code 2 = this harness refusing its arguments; anything else (signal, abort, panic = 101) happened while running
        let died = out.status.code() != Some(2);
        return Err((format!("{bin} c07-digests [{from},{to}) ended with {:?}", out.status), died));
    }
    let mut m = BTreeMap::new();
    for l in String::from_utf8_lossy(&out.stdout).lines() {
        if let Ok(v) = serde_json::from_str::<Value>(l) {
            m.insert(
                v["idx"].as_u64().unwrap_or(u64::MAX),
                (v["a"].as_str().unwrap_or("").to_string(), v["b"].as_str().unwrap_or("").to_string(), v["kb"].as_str().unwrap_or("").to_string()),
            );
        }
    }
    Ok(m)
}

fn scratch_file(ctx: &Ctx, tag: &str) -> std::path::PathBuf {
    let d = ctx.verif_dir.join("sim").join("target").join("scratch");
    let _ = std::fs::create_dir_all(&d);
    d.join(format!("c07-{}-{tag}.json", std::process::id()))
}

/// digest of (setup, events) in the environment `env` ("self" or a binary path)
fn digest_in(ctx: &Ctx, env: &str, setup: &Setup, events: &[Event], verbose: bool) -> (String, Vec<String>) {
    if env == "self" {
        let (d, l, _) = transcript_of(setup, events, verbose);
        return (d, l);
    }
    let f = scratch_file(ctx, "exec");
    std::fs::write(&f, json!({"setup": setup, "events": events}).to_string()).unwrap();
    let mut cmd = command_for(env);
    cmd.arg("c07-exec").arg(&f);
    if verbose {
        cmd.arg("verbose");
    }
    let out = cmd.stderr(Stdio::null()).output();
    let _ = std::fs::remove_file(&f);
    match out {
        Ok(o) if o.status.success() => {
            let v: Value = serde_json::from_slice(&o.stdout).unwrap_or(json!({}));
            (
                v["digest"].as_str().unwrap_or("?").to_string(),
                v["lines"].as_array().map(|a| a.iter().filter_map(|x| x.as_str().map(|s| s.to_string())).collect()).unwrap_or_default(),
            )
        }
        Ok(o) => (format!("process-died:{:?}", o.status.code()), vec![]),
        Err(e) => (format!("cannot-run:{e}"), vec![]),
    }
}

struct Divergence {
    run: u64,
    stream: u64,
    env1: (String, String), // (name, "self" | path)
    env2: (String, String),
    setup1: Setup,
    setup2: Setup,
    events: Vec<Event>,
    hazard: Option<Hazard>,
}

fn first_difference(l1: &[String], l2: &[String]) -> String {
    for (i, (a, b)) in l1.iter().zip(l2.iter()).enumerate() {
        if a != b {
            return format!("transcript line {i}: '{a}' vs '{b}'");
        }
    }
    if l1.len() != l2.len() {
        let (longer, which) = if l1.len() > l2.len() { (l1, "first") } else { (l2, "second") };
        return format!("transcripts agree for {} lines, then the {which} environment continues with '{}'", l1.len().min(l2.len()), longer[l1.len().min(l2.len())]);
    }
    "digests differ but verbose transcripts are equal".into()
}

fn report_divergence(ctx: &Ctx, d: Divergence) -> Violation {
    // bounded effort: a scenario with a giant block costs seconds per execution
    let deadline = std::time::Instant::now() + std::time::Duration::from_secs(120);
    let differs = |events: &[Event]| -> bool {
        if std::time::Instant::now() > deadline && events.len() != d.events.len() {
            return false;
        }
        let (a, _) = digest_in(ctx, &d.env1.1, &d.setup1, events, false);
        let (b, _) = digest_in(ctx, &d.env2.1, &d.setup2, events, false);
        a != b
    };
    let n0 = d.events.len();
    let remote = d.env1.1 != "self" || d.env2.1 != "self";
    let events = if !differs(&d.events) {
        d.events.clone()
    } else if remote {
        // sub-process per probe: bounded effort (prefix search, then a short ddmin)
        let mut lo = 1usize;
        let mut hi = d.events.len();
        while lo < hi {
            let mid = (lo + hi) / 2;
            if differs(&d.events[..mid]) {
                hi = mid;
            } else {
                lo = mid + 1;
            }
        }
        let pre = d.events[..hi].to_vec();
        let mut budget = 120;
        ddmin(&pre, |c| {
            if budget == 0 {
                return false;
            }
            budget -= 1;
            differs(c)
        })
    } else {
        ddmin(&d.events, |c| differs(c))
    };
    let (_, l1) = digest_in(ctx, &d.env1.1, &d.setup1, &events, true);
    let (_, l2) = digest_in(ctx, &d.env2.1, &d.setup2, &events, true);
    let what = first_difference(&l1, &l2);
    let o = d.setup1.oti;
    let signature = match &d.hazard {
        Some(h) => format!("xbuild:rand-overflow:K'={}:ISI={}", h.kp, h.isi),
        None => format!("xbuild:{}-vs-{}:F={},T={},Z={},N={},Al={}", d.env1.0, d.env2.0, o.f, o.t, o.z, o.n, o.al),
    };
    let alloc_key: Option<u64> = [&d.env1.1, &d.env2.1].iter().find_map(|e| e.split_once("#alloc=").and_then(|(_, k)| k.parse::<u64>().ok()));
    Violation {
        property: "C07".into(),
        oracle: format!("transcripts-differ:{}-vs-{}", d.env1.0, d.env2.0),
        signature,
        seed: ctx.seed,
        run: d.run,
        engine: "xbuild",
        observed: format!("{} [{}] vs {} [{}]: {what}", d.env1.0, knob_key(&d.setup1), d.env2.0, knob_key(&d.setup2)),
        scenario: json!({
            "stream": d.stream,
            "alloc_key": alloc_key,
            "flavours": [d.env1.0, d.env2.0],
            "setup_1": d.setup1,
            "setup_2": d.setup2,
            "events": events,
            "hazard": d.hazard.as_ref().map(|h| json!({"k": h.k, "k_prime": h.kp, "isi": h.isi, "esi": h.esi, "y": h.y})),
        }),
        minimised_from: Some((n0, events.len())),
    }
}

#[derive(Default)]
struct Acc {
    runs: u64,
    events: u64,
    ticks: u64,
    faults: Counters,
    knob_vectors: HashSet64,
    kernels: Counters,
    digests: BTreeMap<u64, String>,
    samples: Vec<Value>,
}

fn local_stream(ctx: &Ctx, stream: u64, n: u64, max_k: u32, workers: usize) -> (Acc, Option<(u64, Digests)>) {
    let seed = ctx.seed;
    par_fold(
        n,
        workers,
        16,
        |idx, acc: &mut Acc| {
            let d = digests_for(seed, stream, idx, max_k);
            acc.runs += 1;
            acc.events += d.events as u64;
            acc.ticks += d.ticks;
            acc.faults.merge(&d.faults);
            for s in [&d.scenario.setup, &d.setup_b] {
                let mut h = crate::prng::Digest::new();
                h.str(&knob_key(s));
                acc.knob_vectors.insert(h.finish64());
                acc.kernels.inc(match s.kernel {
                    Kernel::Auto => "kernel_auto",
                    Kernel::Portable => "kernel_portable",
                    Kernel::Ssse3 => "kernel_ssse3",
                    Kernel::Avx2 => "kernel_avx2",
                    Kernel::Avx512 => "kernel_avx512",
                });
            }
            acc.digests.insert(idx, d.a.clone());
            if idx < 2 {
                let mut v = serde_json::to_value(&d.scenario).unwrap();
                if let Some(ev) = v.get_mut("events").and_then(|e| e.as_array_mut()) {
                    ev.truncate(10);
                    for e in ev.iter_mut() {
                        let total = e.get("batch").and_then(|b| b.as_array()).map(|b| b.len()).unwrap_or(0);
                        if total > 8 {
                            if let Some(b) = e.get_mut("batch").and_then(|b| b.as_array_mut()) {
                                b.truncate(8);
                            }
                            e["batch_frames_total"] = json!(total);
                        }
                    }
                }
                acc.samples.push(json!({"run": idx, "stream": stream, "events_total": d.events, "knobs_a": knob_key(&d.scenario.setup), "knobs_b": knob_key(&d.setup_b), "digest": d.a, "scenario_head": v}));
            }
            if d.a != d.b {
                Err(d)
            } else {
                Ok(())
            }
        },
        |a, b| {
            a.runs += b.runs;
            a.events += b.events;
            a.ticks += b.ticks;
            a.faults.merge(&b.faults);
            a.knob_vectors.merge(b.knob_vectors);
            a.kernels.merge(&b.kernels);
            a.digests.extend(b.digests);
            a.samples.extend(b.samples);
        },
        Acc::default(),
    )
}

pub fn run(ctx: &Ctx) -> i32 {
    let t0 = std::time::Instant::now();
    if flavour_name() != "release-std" {
        eprintln!("HARNESS-ERROR: the C07 driver must be the release-std binary (this is {})", flavour_name());
        return 2;
    }
    let others = other_binaries();
    if others.len() != 3 {
        eprintln!("HARNESS-ERROR: C07 needs the checked-std, release-nostd and checked-nostd binaries (RQSIM_BIN_* environment), found {}", others.len());
        return 2;
    }
    let n_small = ctx.runs(2_000, 100_000);
    let n_large = ctx.runs(1_000, 50_000);
    let mut violations: Vec<Violation> = vec![];
    let mut comparisons = 0u64;

    // ---- the other flavours run concurrently in sub-processes while this binary does its share
    let wshare = (ctx.workers / 2).max(2);
    let handles: Vec<(String, String, std::thread::JoinHandle<Result<BTreeMap<u64, (String, String, String)>, String>>)> = others
        .iter()
        .map(|(name, bin)| {
            let (b, seed) = (bin.clone(), ctx.seed);
            (name.to_string(), bin.clone(), std::thread::spawn(move || remote_digests(&b, seed, STREAM_SMALL, 0, n_small, SMALL_MAX_K, wshare)))
        })
        .collect();
    // the allocator-seam flavour (this binary under RQSIM_ALLOC=1) runs the K <= 120, K <= 400 and 700..1300 streams
    let Some(alloc_bin) = alloc_env() else {
        eprintln!("HARNESS-ERROR: cannot locate the running binary for the allocator-seam flavour");
        return 2;
    };
    let spawn_alloc = |stream: u64, n: u64, max_k: u32| {
        let (b, seed) = (alloc_bin.clone(), ctx.seed);
        std::thread::spawn(move || remote_digests(&b, seed, stream, 0, n, max_k, wshare))
    };
    let n_xl = ctx.runs(200, 10_000);
    let ha_small = spawn_alloc(STREAM_SMALL, n_small, SMALL_MAX_K);
    let (acc_small, fail_small) = local_stream(ctx, STREAM_SMALL, n_small, SMALL_MAX_K, wshare);
    let mut remote: Vec<(String, String, BTreeMap<u64, (String, String, String)>)> = vec![];
    for (name, bin, h) in handles {
        match h.join().unwrap() {
            Ok(m) => remote.push((name, bin, m)),
            Err(e) => {
                eprintln!("HARNESS-ERROR: {e}");
                return 2;
            }
        }
    }
    // medium band (121..180 symbols, one block) in all four builds: a few scenarios only
    let n_medium = ctx.runs(12, 300);
    let handles_m: Vec<(String, String, std::thread::JoinHandle<Result<BTreeMap<u64, (String, String, String)>, String>>)> = others
        .iter()
        .map(|(name, bin)| {
            let (b, seed) = (bin.clone(), ctx.seed);
            (name.to_string(), bin.clone(), std::thread::spawn(move || remote_digests(&b, seed, STREAM_MEDIUM, 0, n_medium, MEDIUM_MAX_K, wshare)))
        })
        .collect();
    let (acc_medium, fail_medium) = local_stream(ctx, STREAM_MEDIUM, n_medium, MEDIUM_MAX_K, wshare);
    let mut remote_medium: Vec<(String, String, BTreeMap<u64, (String, String, String)>)> = vec![];
    for (name, bin, h) in handles_m {
        match h.join().unwrap() {
            Ok(m) => remote_medium.push((name, bin, m)),
            Err(e) => {
                eprintln!("HARNESS-ERROR: {e}");
                return 2;
            }
        }
    }
    // large-K stream: release flavours only
    let nostd_bin = others.iter().find(|(n, _)| *n == "release-nostd").map(|(_, b)| b.clone()).unwrap();
    let hl = {
        let (b, seed) = (nostd_bin.clone(), ctx.seed);
        std::thread::spawn(move || remote_digests(&b, seed, STREAM_LARGE, 0, n_large, LARGE_MAX_K, wshare))
    };
    let ha_large = spawn_alloc(STREAM_LARGE, n_large, LARGE_MAX_K);
    let (acc_large, fail_large) = local_stream(ctx, STREAM_LARGE, n_large, LARGE_MAX_K, wshare);
    let remote_large = match hl.join().unwrap() {
        Ok(m) => m,
        Err(e) => {
            eprintln!("HARNESS-ERROR: {e}");
            return 2;
        }
    };

    // extra-large stream (700 <= K <= 1300, one block): release flavours only
    let hx = {
        let (b, seed) = (nostd_bin.clone(), ctx.seed);
        std::thread::spawn(move || remote_digests(&b, seed, STREAM_XL, 0, n_xl, XL_MAX_K, wshare))
    };
    let ha_xl = spawn_alloc(STREAM_XL, n_xl, XL_MAX_K);
    let (acc_xl, fail_xl) = local_stream(ctx, STREAM_XL, n_xl, XL_MAX_K, wshare);
    let remote_xl = match hx.join().unwrap() {
        Ok(m) => m,
        Err(e) => {
            eprintln!("HARNESS-ERROR: {e}");
            return 2;
        }
    };

    // very large stream (3000 <= K <= 9000, one block): release flavours only, a handful of scenarios
    let n_xxl = ctx.runs(8, 400);
    let hxx = {
        let (b, seed) = (nostd_bin.clone(), ctx.seed);
        std::thread::spawn(move || remote_digests(&b, seed, STREAM_XXL, 0, n_xxl, XXL_MAX_K, wshare))
    };
    let (acc_xxl, fail_xxl) = local_stream(ctx, STREAM_XXL, n_xxl, XXL_MAX_K, wshare);
    let remote_xxl = match hxx.join().unwrap() {
        Ok(m) => m,
        Err(e) => {
            eprintln!("HARNESS-ERROR: {e}");
            return 2;
        }
    };

    // giant stream (20000 <= K <= 56403, one block): release flavours only
    let n_giant = ctx.runs(6, 80);
    let hg = {
        let (b, seed) = (nostd_bin.clone(), ctx.seed);
        std::thread::spawn(move || remote_digests(&b, seed, STREAM_GIANT, 0, n_giant, GIANT_MAX_K, wshare))
    };
    let (acc_giant, fail_giant) = local_stream(ctx, STREAM_GIANT, n_giant, GIANT_MAX_K, wshare);
    let remote_giant = match hg.join().unwrap() {
        Ok(m) => m,
        Err(e) => {
            eprintln!("HARNESS-ERROR: {e}");
            return 2;
        }
    };

    // ---- knob divergence inside this binary
    for (stream, fail) in [(STREAM_SMALL, fail_small), (STREAM_MEDIUM, fail_medium), (STREAM_LARGE, fail_large), (STREAM_XL, fail_xl), (STREAM_XXL, fail_xxl), (STREAM_GIANT, fail_giant)] {
        if let Some((run, d)) = fail {
            if violations.is_empty() {
                violations.push(report_divergence(
                    ctx,
                    Divergence {
                        run,
                        stream,
                        env1: ("release-std".into(), "self".into()),
                        env2: ("release-std".into(), "self".into()),
                        setup1: d.scenario.setup.clone(),
                        setup2: d.setup_b.clone(),
                        events: d.scenario.events.clone(),
                        hazard: None,
                    },
                ));
            }
        }
    }
    comparisons += acc_small.runs + acc_medium.runs + acc_large.runs + acc_xl.runs + acc_xxl.runs + acc_giant.runs;

    // ---- cross-build comparison, and knob divergence inside the other binaries
    let mut check_remote = |name: &str, bin: &str, m: &BTreeMap<u64, (String, String, String)>, local: &BTreeMap<u64, String>, stream: u64, max_k: u32, violations: &mut Vec<Violation>| {
        for (idx, (a, b, _kb)) in m {
            comparisons += 2;
            let Some(mine) = local.get(idx) else { continue };
            if !violations.is_empty() {
                break;
            }
            if a != mine || a != b {
                let d = digests_for(ctx.seed, stream, *idx, max_k);
                let bin = if bin.ends_with("#alloc") { format!("{bin}={}", run_seed(ctx.seed, stream, *idx)) } else { bin.to_string() };
                let bin = bin.as_str();
                let (env1, setup1) = if a != mine { (("release-std".to_string(), "self".to_string()), d.scenario.setup.clone()) } else { ((name.to_string(), bin.to_string()), d.scenario.setup.clone()) };
                let setup2 = if a != mine { d.scenario.setup.clone() } else { d.setup_b.clone() };
                violations.push(report_divergence(
                    ctx,
                    Divergence { run: *idx, stream, env1, env2: (name.to_string(), bin.to_string()), setup1, setup2, events: d.scenario.events.clone(), hazard: None },
                ));
            }
        }
    };
    for (name, bin, m) in &remote {
        check_remote(name, bin, m, &acc_small.digests, STREAM_SMALL, SMALL_MAX_K, &mut violations);
    }
    for (name, bin, m) in &remote_medium {
        check_remote(name, bin, m, &acc_medium.digests, STREAM_MEDIUM, MEDIUM_MAX_K, &mut violations);
    }
    check_remote("release-nostd", &nostd_bin, &remote_large, &acc_large.digests, STREAM_LARGE, LARGE_MAX_K, &mut violations);
    check_remote("release-nostd", &nostd_bin, &remote_xl, &acc_xl.digests, STREAM_XL, XL_MAX_K, &mut violations);
    check_remote("release-nostd", &nostd_bin, &remote_xxl, &acc_xxl.digests, STREAM_XXL, XXL_MAX_K, &mut violations);
    check_remote("release-nostd", &nostd_bin, &remote_giant, &acc_giant.digests, STREAM_GIANT, GIANT_MAX_K, &mut violations);
    let mut alloc_scenarios = 0u64;
    for (h, local, stream, max_k) in [(ha_small, &acc_small.digests, STREAM_SMALL, SMALL_MAX_K), (ha_large, &acc_large.digests, STREAM_LARGE, LARGE_MAX_K), (ha_xl, &acc_xl.digests, STREAM_XL, XL_MAX_K)] {
        match h.join().unwrap() {
            Ok(m) => {
                alloc_scenarios += m.len() as u64;
                check_remote(ALLOC_FLAVOUR, &alloc_bin, &m, local, stream, max_k, &mut violations);
            }
            Err(e) => {
                eprintln!("HARNESS-ERROR: {e}");
                return 2;
            }
        }
    }

    // ---- seeded hazards (ESIs where Rand's 32-bit additions wrap), all flavours
    let hz = hazards();
    let hz_limit = if ctx.quick { 1000 } else { 60_000 };
    let mut hazards_run = vec![];
    for h in hz.iter().filter(|h| h.kp <= hz_limit) {
        let sc = hazard_scenario(h);
        let (mine, _) = digest_in(ctx, "self", &sc.setup, &sc.events, false);
        let mut row = json!({"k": h.k, "k_prime": h.kp, "isi": h.isi, "esi": h.esi, "y": h.y, "release-std": &mine[..16.min(mine.len())]});
        for (name, bin) in &others {
            let (theirs, _) = digest_in(ctx, bin, &sc.setup, &sc.events, false);
            comparisons += 1;
            row[*name] = json!(if theirs == mine { "same" } else { "DIFFERENT" });
            if theirs != mine {
                let v = report_divergence(
                    ctx,
                    Divergence {
                        run: h.isi as u64,
                        stream: 0,
                        env1: ("release-std".into(), "self".into()),
                        env2: (name.to_string(), bin.clone()),
                        setup1: sc.setup.clone(),
                        setup2: sc.setup.clone(),
                        events: sc.events.clone(),
                        hazard: Some(h.clone()),
                    },
                );
                if !violations.iter().any(|x| x.signature == v.signature) {
                    violations.push(v);
                }
            }
        }
        hazards_run.push(row);
    }

    let mut faults = acc_small.faults.clone();
    faults.merge(&acc_medium.faults);
    faults.merge(&acc_large.faults);
    faults.merge(&acc_xl.faults);
    faults.merge(&acc_xxl.faults);
    faults.merge(&acc_giant.faults);
    let mut kernels = acc_small.kernels.clone();
    kernels.merge(&acc_medium.kernels);
    kernels.merge(&acc_large.kernels);
    kernels.merge(&acc_xl.kernels);
    kernels.merge(&acc_xxl.kernels);
    kernels.merge(&acc_giant.kernels);
    for k in ["kernel_auto", "kernel_portable", "kernel_ssse3", "kernel_avx2", "kernel_avx512"] {
        kernels.touch(k);
    }
    let mut kv = acc_small.knob_vectors.clone();
    kv.merge(acc_medium.knob_vectors.clone());
    kv.merge(acc_large.knob_vectors.clone());
    kv.merge(acc_xl.knob_vectors.clone());
    kv.merge(acc_xxl.knob_vectors.clone());
    kv.merge(acc_giant.knob_vectors.clone());
    let wall = t0.elapsed().as_secs_f64();
    let mut samples = acc_small.samples.clone();
    samples.extend(acc_large.samples.clone());
    samples.extend(acc_xl.samples.iter().take(1).cloned());
    report::write_evidence(
        ctx,
        &Evidence {
            level: "exploration",
            evaluations: (acc_small.runs * 8) + (acc_medium.runs * 8) + (acc_large.runs * 4) + (acc_xl.runs * 4) + alloc_scenarios * 2 + (acc_xxl.runs * 4) + (acc_giant.runs * 4) + hazards_run.len() as u64 * 4,
            distinct_nontrivial: kv.len() as u64,
            rule: "one evaluation = one execution of a seeded transfer scenario in one environment (build flavour x knob vector); every scenario of the K<=120 stream and of the medium stream (one block of 121..180 symbols) runs in 4 builds x 2 knob vectors, every scenario of the K<=400 stream and of the extra-large streams (one block of 700..1300, of 3000..9000 and of 20000..56403 symbols) in the 2 release builds x 2 knob vectors; transcripts (OTI bytes, every packet emitted, every receiver outcome after every delivery) must be identical. distinct_nontrivial = distinct knob vectors (kernel level, per-replica construction/plan source/encoder threshold, per-receiver decoder threshold) exercised in this binary; each is combined with 4 (resp. 2) build flavours".into(),
            samples,
            extra: json!({
                "scenarios_small_stream": acc_small.runs,
                "scenarios_medium_stream_121_to_180_symbols_all_builds": acc_medium.runs,
                "scenarios_large_stream": acc_large.runs,
                "scenarios_xl_stream": acc_xl.runs,
                "scenarios_xxl_stream_3000_to_9000_symbols": acc_xxl.runs,
                "scenarios_giant_stream_20000_to_56403_symbols": acc_giant.runs,
                "scenarios_re_executed_under_the_allocator_seam": alloc_scenarios,
                "allocator_seam": "release-std binary with RQSIM_ALLOC=1: every allocation placed shift bytes past a 64-byte boundary (shift in {1,3,7,8,9,15,16,17,31,32,33,48} per scenario, rounded to the layout's alignment), fresh memory filled with a non-zero byte, freed memory overwritten, realloc always moves; streams K<=120, K<=400 and 700..1300, both knob vectors",
                "transcript_comparisons": comparisons,
                "events_executed_in_this_binary": acc_small.events + acc_large.events + acc_xl.events,
                "simulated_ticks": acc_small.ticks + acc_large.ticks + acc_xl.ticks,
                "build_flavours": ["release-std", "checked-std (debug-assertions + overflow-checks, optimised)", "release-nostd", "checked-nostd", "release-std-alloc (release-std under the allocator seam)"],
                "kernel_levels_exercised": kernels.to_json(),
                "fault_kinds_fired": faults.to_json(),
                "seeded_hazards": hazards_run,
                "seeded_hazards_found_by_modular_inverse": hz.iter().map(|h| json!({"k_prime": h.kp, "isi": h.isi})).collect::<Vec<_>>(),
                "real_components": ["everything in raptorq; the four builds differ in cfg(debug_assertions), overflow checks, feature std"],
                "stub_components": ["network / sender / receiver applications (as C01)", "CPU feature detection when a kernel level is forced (hook H4)"],
            }),
            assumptions: vec![
                "NEON / arm kernels cannot run on this x86-64 host".into(),
                "checked builds are restricted to K <= 180 per block (K <= 120 for the bulk of the scenarios) except for the seeded hazards (the debug-only solver verification is O(L^3) per step)".into(),
            ],
            wall_s: wall,
            violations: violations.len() as u64,
        },
    );
    println!(
        "C07 {}: {} + {} + {} + {} scenarios, {} transcript comparisons across 4 builds, {} knob vectors, {} hazards, {:.1}s",
        ctx.tier(),
        acc_small.runs,
        acc_large.runs,
        acc_xl.runs,
        acc_xxl.runs,
        comparisons,
        kv.len(),
        hazards_run.len(),
        wall
    );
    report::conclude(ctx, &violations)
}

pub fn replay(ctx: &Ctx, doc: &Value) -> i32 {
    let sc = &doc["scenario"];
    let setup1: Setup = match serde_json::from_value(sc["setup_1"].clone()) {
        Ok(s) => s,
        Err(e) => {
            eprintln!("HARNESS-ERROR: bad xbuild scenario: {e}");
            return 2;
        }
    };
    let setup2: Setup = serde_json::from_value(sc["setup_2"].clone()).unwrap_or_else(|_| setup1.clone());
    let events: Vec<Event> = serde_json::from_value(sc["events"].clone()).unwrap_or_default();
    let fl: Vec<String> = sc["flavours"].as_array().map(|a| a.iter().filter_map(|x| x.as_str().map(|s| s.to_string())).collect()).unwrap_or_default();
    let path_of = |name: &str| -> Option<String> {
        if name == "release-std" {
            return Some("self".into());
        }
        if name == ALLOC_FLAVOUR {
            return alloc_env().map(|e| match sc["alloc_key"].as_u64() {
                Some(k) => format!("{e}={k}"),
                None => e,
            });
        }
        other_binaries().into_iter().find(|(n, _)| *n == name).map(|(_, b)| b)
    };
    let (Some(e1), Some(e2)) = (fl.first().and_then(|n| path_of(n)), fl.get(1).and_then(|n| path_of(n))) else {
        eprintln!("HARNESS-ERROR: replay needs the binaries of flavours {fl:?}");
        return 2;
    };
    let (d1, l1) = digest_in(ctx, &e1, &setup1, &events, true);
    let (d2, l2) = digest_in(ctx, &e2, &setup2, &events, true);
    if d1 == d2 {
        println!("replay: transcripts agree ({} events)", events.len());
        0
    } else {
        println!(
            "VIOLATION property=C07 replay={} oracle=transcripts-differ:{}-vs-{} :: {}",
            doc["__path"].as_str().unwrap_or("?"),
            fl[0],
            fl[1],
            first_difference(&l1, &l2)
        );
        1
    }
}
