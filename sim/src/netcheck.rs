//! Batch driver, minimisation and replay for the network engine (C01, C08, C18).

use crate::net::*;
use crate::prng::run_seed;
use crate::report::{self, ddmin, Evidence, Violation};
use crate::sim::{simulate, simulate_band, Profile};
use crate::util::{par_fold, Counters, Ctx, HashSet64};
use serde_json::json;

pub fn oracles_for(profile: Profile) -> Oracles {
    match profile {
        Profile::C01 => Oracles { c01: true, c08: false, c18: false },
        Profile::C08 => Oracles { c01: false, c08: true, c18: false },
        Profile::C18 => Oracles { c01: false, c08: false, c18: true },
        Profile::C07 => Oracles::default(),
    }
}

fn stream_of(profile: Profile) -> u64 {
    match profile {
        Profile::C01 => 1,
        Profile::C08 => 8,
        Profile::C18 => 18,
        Profile::C07 => 7,
    }
}

fn prop_name(profile: Profile) -> &'static str {
    match profile {
        Profile::C01 => "C01",
        Profile::C08 => "C08",
        Profile::C18 => "C18",
        Profile::C07 => "C07",
    }
}

#[derive(Default)]
struct Acc {
    runs: u64,
    faults: Counters,
    probes: Counters,
    states: HashSet64,
    shapes: HashSet64,
    ticks: u64,
    events: u64,
    samples: Vec<serde_json::Value>,
}

fn fails_same(sc: &Scenario, oracles: Oracles, oracle: &str) -> Option<Fail> {
    match run_scenario(sc, oracles, false, false).1 {
        Err(f) if f.oracle == oracle => Some(f),
        _ => None,
    }
}

/// ddmin over the event list, then simplifications of batches and data, keeping the same oracle.
pub fn minimise(sc: &Scenario, oracles: Oracles, oracle: &str) -> Scenario {
    // bounded effort: a scenario with a giant block costs seconds per execution
    let deadline = std::time::Instant::now() + std::time::Duration::from_secs(90);
    let fails_same = |c: &Scenario, o: Oracles, name: &str| -> Option<Fail> {
        if std::time::Instant::now() > deadline {
            return None;
        }
        fails_same(c, o, name)
    };
    let mut best = sc.clone();
    if let Some(f) = fails_same(&best, oracles, oracle) {
        let mut t = best.clone();
        t.events.truncate((f.at + 1).min(t.events.len()));
        if fails_same(&t, oracles, oracle).is_some() {
            best = t;
        }
    } else {
        return best;
    }
    let evs = ddmin(&best.events, |cand| {
        let c = Scenario { setup: best.setup.clone(), events: cand.to_vec() };
        fails_same(&c, oracles, oracle).is_some()
    });
    best.events = evs;
    // split batches into single frames / drop frames inside batches
    let mut changed = true;
    let mut guard = 0;
    while changed && guard < 200 {
        changed = false;
        guard += 1;
        for i in 0..best.events.len() {
            if let Event::Deliver { rx, batch } = &best.events[i] {
                if batch.len() > 1 {
                    for j in 0..batch.len() {
                        let mut b2 = batch.clone();
                        b2.remove(j);
                        let mut c = best.clone();
                        c.events[i] = Event::Deliver { rx: *rx, batch: b2 };
                        if fails_same(&c, oracles, oracle).is_some() {
                            best = c;
                            changed = true;
                            break;
                        }
                    }
                    if changed {
                        break;
                    }
                }
            }
        }
    }
    // drop receivers and replicas that no remaining event refers to (indices are renumbered)
    best = compact(&best, oracles, oracle);
    // simpler data
    for d in [DataSpec::Zero, DataSpec::Count] {
        let mut c = best.clone();
        c.setup.data = d;
        if fails_same(&c, oracles, oracle).is_some() {
            best = c;
            break;
        }
    }
    // default kernel, no mirrors, default thresholds where the failure survives
    let mut c = best.clone();
    c.setup.kernel = Kernel::Auto;
    if fails_same(&c, oracles, oracle).is_some() {
        best = c;
    }
    for i in 0..best.setup.receivers.len() {
        let mut c = best.clone();
        c.setup.receivers[i].mirror = None;
        if fails_same(&c, oracles, oracle).is_some() {
            best = c;
        }
        let mut c = best.clone();
        c.setup.receivers[i].threshold = None;
        if fails_same(&c, oracles, oracle).is_some() {
            best = c;
        }
    }
    best
}

fn remap(sc: &Scenario, rx_map: &[Option<usize>], rep_map: &[Option<usize>]) -> Scenario {
    let mut out = sc.clone();
    out.setup.receivers = sc.setup.receivers.iter().enumerate().filter(|(i, _)| rx_map[*i].is_some()).map(|(_, r)| r.clone()).collect();
    out.setup.replicas = sc.setup.replicas.iter().enumerate().filter(|(i, _)| rep_map[*i].is_some()).map(|(_, r)| r.clone()).collect();
    out.events = sc
        .events
        .iter()
        .filter_map(|e| {
            Some(match e {
                Event::Source { replica, sbn } => Event::Source { replica: rep_map[*replica]?, sbn: *sbn },
                Event::Window { replica, sbn, s, n } => Event::Window { replica: rep_map[*replica]?, sbn: *sbn, s: *s, n: *n },
                Event::Burst { replica, r } => Event::Burst { replica: rep_map[*replica]?, r: *r },
                Event::Deliver { rx, batch } => {
                    let b: Vec<Frame> = batch.iter().filter_map(|f| Some(Frame { replica: rep_map[f.replica]?, sbn: f.sbn, esi: f.esi })).collect();
                    if b.is_empty() {
                        return None;
                    }
                    Event::Deliver { rx: rx_map[*rx]?, batch: b }
                }
                Event::Poke { rx, sbn } => Event::Poke { rx: rx_map[*rx]?, sbn: *sbn },
                Event::Snapshot { rx } => Event::Snapshot { rx: rx_map[*rx]? },
                Event::Rollback { rx } => Event::Rollback { rx: rx_map[*rx]? },
                Event::Check { rx } => Event::Check { rx: rx_map[*rx]? },
                Event::Final => Event::Final,
            })
        })
        .collect();
    out
}

fn compact(sc: &Scenario, oracles: Oracles, oracle: &str) -> Scenario {
    let nrx = sc.setup.receivers.len();
    let nrep = sc.setup.replicas.len();
    let mut rx_used = vec![false; nrx];
    let mut rep_used = vec![false; nrep];
    for e in &sc.events {
        match e {
            Event::Source { replica, .. } | Event::Window { replica, .. } | Event::Burst { replica, .. } => {
                if *replica < nrep {
                    rep_used[*replica] = true;
                }
            }
            Event::Deliver { rx, batch } => {
                if *rx < nrx {
                    rx_used[*rx] = true;
                }
                for f in batch {
                    if f.replica < nrep {
                        rep_used[f.replica] = true;
                    }
                }
            }
            Event::Poke { rx, .. } | Event::Snapshot { rx } | Event::Rollback { rx } | Event::Check { rx } => {
                if *rx < nrx {
                    rx_used[*rx] = true;
                }
            }
            Event::Final => {}
        }
    }
    // keep at least one of each; replica 0 is the producer used by the set-determinism oracle
    if !rx_used.iter().any(|u| *u) && nrx > 0 {
        rx_used[0] = true;
    }
    if nrep > 0 {
        rep_used[0] = true;
    }
    if rx_used.iter().all(|u| *u) && rep_used.iter().all(|u| *u) {
        return sc.clone();
    }
    let mut next = 0;
    let rx_map: Vec<Option<usize>> = rx_used.iter().map(|u| if *u { next += 1; Some(next - 1) } else { None }).collect();
    let mut next = 0;
    let rep_map: Vec<Option<usize>> = rep_used.iter().map(|u| if *u { next += 1; Some(next - 1) } else { None }).collect();
    let cand = remap(sc, &rx_map, &rep_map);
    if fails_same(&cand, oracles, oracle).is_some() {
        cand
    } else {
        sc.clone()
    }
}

fn signature(f: &Fail, sc: &Scenario) -> String {
    let o = &sc.setup.oti;
    format!("net:{}:{}:F={},T={},Z={},N={},Al={}", f.property, f.oracle, o.f, o.t, o.z, o.n, o.al)
}

pub fn to_violation(ctx: &Ctx, run: u64, sc: &Scenario, f: &Fail, min_from: Option<(usize, usize)>) -> Violation {
    Violation {
        property: f.property.to_string(),
        oracle: f.oracle.clone(),
        signature: signature(f, sc),
        seed: ctx.seed,
        run,
        engine: "net",
        observed: format!("event #{}: {}", f.at, f.detail),
        scenario: serde_json::to_value(sc).unwrap(),
        minimised_from: min_from,
    }
}

fn sample_of(run: u64, sc: &Scenario, ticks: u64) -> serde_json::Value {
    let mut v = serde_json::to_value(sc).unwrap();
    let n = sc.events.len();
    if let Some(ev) = v.get_mut("events").and_then(|e| e.as_array_mut()) {
        ev.truncate(14);
        // a batch can hold tens of thousands of frames (a receiver that buffered a giant block)
        for e in ev.iter_mut() {
            let total = e.get("batch").and_then(|b| b.as_array()).map(|b| b.len()).unwrap_or(0);
            if total > 8 {
                if let Some(b) = e.get_mut("batch").and_then(|b| b.as_array_mut()) {
                    b.truncate(8);
                }
                e["batch_frames_total"] = json!(total);
            }
        }
    }
    json!({"run": run, "events_total": n, "simulated_ticks": ticks, "scenario_head": v})
}

pub fn max_k_for(ctx: &Ctx, profile: Profile) -> u32 {
    match (profile, ctx.quick) {
        (Profile::C18, _) => 400,
        (_, true) => 400,
        (_, false) => 1200,
    }
}

pub fn run(ctx: &Ctx, profile: Profile) -> i32 {
    let t0 = std::time::Instant::now();
    let n = match profile {
        Profile::C01 => ctx.runs(30_000, 3_000_000),
        Profile::C08 => ctx.runs(20_000, 2_000_000),
        Profile::C18 => ctx.runs(20_000, 2_000_000),
        Profile::C07 => unreachable!(),
    };
    let oracles = oracles_for(profile);
    let seed = ctx.seed;
    let stream = stream_of(profile);
    let max_k = max_k_for(ctx, profile);
    let n_xxl: u64 = match profile {
        Profile::C01 | Profile::C08 => ctx.runs(16, 600),
        _ => 0,
    };
    // the largest blocks the code supports (a transfer costs several seconds): C01 only
    let n_giant: u64 = match profile {
        Profile::C01 => ctx.runs(4, 60),
        _ => 0,
    };
    // hoarding receivers: a flood of ~2^16 repair packets for one small block in one batch
    let n_mega: u64 = match profile {
        Profile::C01 | Profile::C08 => ctx.runs(8, 300),
        _ => 0,
    };
    // thread-history sessions (warm-up with related block sizes, fresh-thread re-check): C18
    let n_hist: u64 = match profile {
        Profile::C18 => ctx.runs(1500, 150_000),
        _ => 0,
    };
    let n_mid: u64 = match profile {
        Profile::C01 | Profile::C08 => ctx.runs(120, 12_000),
        _ => 0,
    };
    let (acc, fail) = par_fold(
        n,
        ctx.workers,
        if n_xxl > 0 { 4 } else { 64 },
        |run, acc: &mut Acc| {
            // the first few runs of C01 and C08 are very large single blocks (3000..9000 symbols):
            // few, because each costs about a second, but they reach the multi-word dense tail of the
            // sparse back-end that no block below ~4000 symbols reaches
            let out = if run < n_giant {
                acc.probes.inc("shape_giant_block");
                simulate_band(run_seed(seed, stream + 3000, run), profile, oracles, false, 20000, 56403)
            } else if run < n_giant + n_xxl {
                acc.probes.inc("shape_very_large_block");
                simulate_band(run_seed(seed, stream + 1000, run), profile, oracles, false, 3000, 9000)
            } else if run < n_giant + 2 * n_xxl {
                acc.probes.inc("shape_large_block");
                simulate_band(run_seed(seed, stream + 2000, run), profile, oracles, false, 700, 1700)
            } else if run < n_giant + 2 * n_xxl + n_mega {
                acc.probes.inc("shape_hoarded_flood");
                crate::sim::simulate_mega(run_seed(seed, stream + 4000, run), profile, oracles, false)
            } else if run < n_giant + 2 * n_xxl + n_mega + n_mid {
                // one block of 200..420 symbols: the largest sizes for which twin symbols are at hand,
                // so that a solve of a block this large fails (rank-deficient) in many of these runs
                acc.probes.inc("shape_medium_block_with_twins");
                simulate_band(run_seed(seed, stream + 6000, run), profile, oracles, false, 200, 420)
            } else if n_hist > 0 && run < n_hist {
                acc.probes.inc("shape_thread_history_session");
                crate::sim::simulate_history(run_seed(seed, stream + 5000, run), profile, oracles, false)
            } else {
                simulate(run_seed(seed, stream, run), profile, oracles, false, max_k)
            };
            acc.runs += 1;
            acc.faults.merge(&out.faults);
            acc.ticks += out.ticks;
            acc.events += out.scenario.events.len() as u64;
            if let Some(ex) = out.exec {
                acc.probes.merge(&ex.counters);
                acc.states.merge(ex.states);
            }
            {
                // configuration-shape probes
                let o = &out.scenario.setup.oti;
                let ks = block_sizes(o);
                if o.f % o.t as u64 != 0 {
                    acc.probes.inc("shape_f_not_multiple_of_t");
                }
                if o.z > 1 && ks.first() != ks.last() {
                    acc.probes.inc("shape_z_gt_1_kl_ne_ks");
                }
                if o.n > 1 {
                    acc.probes.inc("shape_n_gt_1");
                    if (o.t as u32 / o.al as u32) % o.n as u32 != 0 {
                        acc.probes.inc("shape_n_gt_1_tl_ne_ts");
                    }
                }
                if o.al > 1 {
                    acc.probes.inc("shape_al_gt_1");
                }
                if ks.iter().any(|k| crate::rank::params(*k).kp != *k) {
                    acc.probes.inc("shape_padding_symbols_present");
                }
                if o.t >= 64 {
                    acc.probes.inc("shape_t_ge_64");
                }
                if o.f == 1 {
                    acc.probes.inc("shape_single_byte_object");
                }
                match out.scenario.setup.kernel {
                    Kernel::Auto => {}
                    _ => acc.probes.inc("shape_forced_kernel"),
                }
                let mut d = crate::prng::Digest::new();
                d.u64(o.t as u64);
                d.u64(o.z as u64);
                d.u64(o.n as u64);
                d.u64(o.al as u64);
                d.u64(o.f.div_ceil(o.t as u64));
                d.u64(o.f % o.t as u64);
                acc.shapes.insert(d.finish64());
            }
            // samples: the first large single-block run (if any) and the first two ordinary runs
            let first_ordinary = n_giant + 2 * n_xxl + n_mega + n_mid;
            if (n_giant > 0 && run == 0) || (run >= first_ordinary && run < first_ordinary + 2) {
                acc.samples.push(sample_of(run, &out.scenario, out.ticks));
            }
            match out.result {
                Ok(()) => Ok(()),
                Err(f) => Err((out.scenario, f)),
            }
        },
        |a, b| {
            a.runs += b.runs;
            a.faults.merge(&b.faults);
            a.probes.merge(&b.probes);
            a.states.merge(b.states);
            a.shapes.merge(b.shapes);
            a.ticks += b.ticks;
            a.events += b.events;
            a.samples.extend(b.samples);
        },
        Acc::default(),
    );
    let mut violations = vec![];
    if let Some((run, (sc, f))) = fail {
        let min = minimise(&sc, oracles, &f.oracle);
        let f2 = fails_same(&min, oracles, &f.oracle).unwrap_or(f);
        violations.push(to_violation(ctx, run, &min, &f2, Some((sc.events.len(), min.events.len()))));
    }
    let mut faults = acc.faults.clone();
    // fault kinds counted by the executor (they depend on what actually reached a receiver)
    for k in ["batch", "interleave", "duplicate_delivered", "redeliver_after_done", "snapshot", "rollback", "replica_mix"] {
        if profile == Profile::C18 && (k == "snapshot" || k == "rollback") {
            continue;
        }
        faults.add(k, acc.probes.get(k));
    }
    if profile == Profile::C18 {
        faults.add("window_overlap", acc.probes.get("window_overlap"));
    }
    let probe_keys: Vec<&'static str> = match profile {
        Profile::C01 => vec!["probe_gf2_only_attempt_eligible", "probe_block_decoded_from_repair_only", "probe_decoded_at_exactly_k", "probe_completed_by_solving", "probe_rank_deficient_at_ge_k", "probe_esi_above_2_23", "probe_rollback_across_completion"],
        Profile::C08 => vec!["probe_gf2_only_attempt_eligible", "probe_dup_source_at_k_minus_1", "probe_dup_as_kth_packet", "probe_batch_crosses_k", "probe_rollback_across_completion", "probe_clone_followed", "set_determinism_checks", "redeliver_after_done"],
        Profile::C18 => vec!["shape_thread_history_session", "fresh_thread_rechecks", "probe_esi_seen_through_two_routes", "probe_window_ends_at_last_esi", "probe_bulk_window", "probe_empty_window", "windows", "bursts", "window_overlap", "replica_mix"],
        Profile::C07 => vec![],
    };
    let mut probes = Counters::default();
    for k in &probe_keys {
        probes.add(k, acc.probes.get(k));
    }
    for k in ["shape_f_not_multiple_of_t", "shape_z_gt_1_kl_ne_ks", "shape_n_gt_1", "shape_n_gt_1_tl_ne_ts", "shape_al_gt_1", "shape_padding_symbols_present", "shape_t_ge_64", "shape_single_byte_object", "shape_forced_kernel"] {
        probes.add(k, acc.probes.get(k));
    }
    if n_xxl > 0 {
        probes.add("shape_very_large_block", acc.probes.get("shape_very_large_block"));
        probes.add("shape_large_block", acc.probes.get("shape_large_block"));
    }
    if n_giant > 0 {
        probes.add("shape_giant_block", acc.probes.get("shape_giant_block"));
    }
    if n_mega > 0 {
        probes.add("shape_hoarded_flood", acc.probes.get("shape_hoarded_flood"));
    }
    if n_mid > 0 {
        probes.add("shape_medium_block_with_twins", acc.probes.get("shape_medium_block_with_twins"));
    }
    if violations.is_empty() {
        for z in probes.zeros() {
            eprintln!("WARNING: {} probe '{z}' never fired in this batch", prop_name(profile));
        }
        for z in faults.zeros() {
            eprintln!("WARNING: {} fault kind '{z}' never fired in this batch", prop_name(profile));
        }
    }
    let wall = t0.elapsed().as_secs_f64();
    let rule = match profile {
        Profile::C01 => "one evaluation = one simulated transfer (seeded configuration shape, 1-3 differently built sender replicas, 1-4 receivers behind independently faulty links, repair rounds driven by receiver feedback, fault-free final phase); after every delivery on every receiver: answer is None or byte-equal to the original with length F, no panic, all-source => Some, Some after the final phase. distinct_nontrivial = distinct (block sizes, set of received ESIs per block) states observed at a query point with at least one symbol received",
        Profile::C08 => "one evaluation = one simulated transfer with heavy duplication/reordering/batching/continuation, snapshots and rollbacks; oracles after every step: stickiness (object and block level), mirror receiver of another interface fed the same packets agrees, clone fed the same suffix agrees, and at checkpoints the answer equals that of a fresh receiver fed the sorted distinct set. distinct_nontrivial = distinct (block sizes, received-set) states at query points",
        Profile::C18 => "one evaluation = one simulated fountain session; every frame ever emitted (source bursts, repair windows chosen from receiver feedback incl. overlapping / far / last-id windows, per-object bursts, from 2-3 differently constructed replicas) is entered in a ledger keyed by (SBN, ESI); invariants: one key <-> one payload across replicas/windows/time, window shape, window == singles, burst list shape. distinct_nontrivial = distinct (block sizes, received-set) states at query points",
        Profile::C07 => "",
    };
    report::write_evidence(
        ctx,
        &Evidence {
            level: "exploration",
            evaluations: acc.runs,
            distinct_nontrivial: acc.states.len() as u64,
            rule: format!("{rule} (the set of state hashes is capped at {} entries; a reported value equal to the cap is a lower bound)", crate::util::HASHSET_CAP),
            samples: acc.samples.clone(),
            extra: json!({
                "events_executed": acc.events,
                "simulated_ticks": acc.ticks,
                "distinct_configuration_shapes": acc.shapes.len(),
                "fault_kinds_fired": faults.to_json(),
                "probes": probes.to_json(),
                "max_symbols_per_block": max_k,
                "real_components": ["Encoder", "SourceBlockEncoder (new / with_encoding_plan / un-planned)", "SourceBlockEncodingPlan", "plan cache", "Decoder", "SourceBlockDecoder", "solver, matrices, kernels", "EncodingPacket/PayloadId/OTI (de)serialisation on the wire"],
                "stub_components": ["network (latency, iid and burst loss, partitions, duplication, reordering, stalls/batching)", "sender and receiver applications", "logical clock", "oracles (original object, ledger, fresh reference receivers)"],
            }),
            assumptions: vec![
                "sampling of fault sequences and configuration shapes, not enumeration".into(),
                "symbols per block bounded as stated in max_symbols_per_block".into(),
            ],
            wall_s: wall,
            violations: violations.len() as u64,
        },
    );
    println!(
        "{} {}: {} runs, {} events, {} distinct states, {} simulated ticks, {:.1}s",
        prop_name(profile),
        ctx.tier(),
        acc.runs,
        acc.events,
        acc.states.len(),
        acc.ticks,
        wall
    );
    report::conclude(ctx, &violations)
}

pub fn replay(ctx: &Ctx, doc: &serde_json::Value) -> i32 {
    let sc: Scenario = match serde_json::from_value(doc["scenario"].clone()) {
        Ok(s) => s,
        Err(e) => {
            eprintln!("HARNESS-ERROR: bad net scenario: {e}");
            return 2;
        }
    };
    let oracles = match doc["property"].as_str().unwrap_or("") {
        "C01" => oracles_for(Profile::C01),
        "C08" => oracles_for(Profile::C08),
        "C18" => oracles_for(Profile::C18),
        _ => Oracles { c01: true, c08: true, c18: true },
    };
    match run_scenario(&sc, oracles, false, false).1 {
        Ok(()) => {
            println!("replay: scenario passes ({} events)", sc.events.len());
            0
        }
        Err(f) => {
            let v = to_violation(ctx, doc["run"].as_u64().unwrap_or(0), &sc, &f, None);
            println!(
                "VIOLATION property={} replay={} oracle={} :: {}",
                v.property,
                doc["__path"].as_str().unwrap_or("?"),
                v.oracle,
                v.observed
            );
            1
        }
    }
}

/// developer aid: `rqsim prof <profile> <n>` prints the slowest runs of a small batch
pub fn prof(profile: Profile, n: u64, seed: u64, max_k: u32) {
    let oracles = oracles_for(profile);
    let mut rows = vec![];
    for run in 0..n {
        let t = std::time::Instant::now();
        let out = if max_k == 0 {
            crate::sim::simulate_mega(run_seed(seed, stream_of(profile) + 4000, run), profile, oracles, false)
        } else {
            simulate(run_seed(seed, stream_of(profile), run), profile, oracles, false, max_k)
        };
        let dt = t.elapsed().as_secs_f64();
        let o = out.scenario.setup.oti;
        rows.push((dt, run, o, out.scenario.setup.receivers.len(), out.scenario.events.len(), out.scenario.setup.replicas.clone()));
    }
    rows.sort_by(|a, b| b.0.partial_cmp(&a.0).unwrap());
    let total: f64 = rows.iter().map(|r| r.0).sum();
    println!("total {:.2}s over {} runs", total, n);
    for r in rows.iter().take(15) {
        println!("{:.3}s run={} oti={:?} ks={:?} nrx={} events={} reps={:?}", r.0, r.1, r.2, &block_sizes(&r.2)[..1], r.3, r.4, r.5);
    }
}

/// `rqsim rundigests <property> <n>`: one line per run index with a digest of everything the run
/// decided (resolved scenario, outcome, simulated ticks). Used by tools/determinism.sh to show that a
/// run is a pure function of (VERIF_SEED, run index) whatever the worker count or process.
pub fn rundigests(ctx: &Ctx, prop: &str, n: u64) -> i32 {
    let seed = ctx.seed;
    let lines: Vec<String> = match prop {
        "C01" | "C08" | "C18" | "C07" => {
            let profile = match prop {
                "C01" => Profile::C01,
                "C08" => Profile::C08,
                "C18" => Profile::C18,
                _ => Profile::C07,
            };
            let oracles = oracles_for(profile);
            par_fold(
                n,
                ctx.workers,
                16,
                |run, acc: &mut Vec<String>| -> Result<(), ()> {
                    // every 40th run is one of the special session kinds (hoarded flood / thread history)
                    let out = if run % 400 == 7 && matches!(profile, Profile::C01 | Profile::C08) {
                        crate::sim::simulate_mega(run_seed(seed, stream_of(profile) + 4000, run), profile, oracles, false)
                    } else if run % 40 == 9 && profile == Profile::C18 {
                        crate::sim::simulate_history(run_seed(seed, stream_of(profile) + 5000, run), profile, oracles, false)
                    } else {
                        simulate(run_seed(seed, stream_of(profile), run), profile, oracles, profile == Profile::C07, 400)
                    };
                    let mut d = crate::prng::Digest::new();
                    d.str(&serde_json::to_string(&out.scenario).unwrap());
                    d.u64(out.ticks);
                    d.str(&format!("{:?}", out.result.as_ref().err().map(|f| &f.oracle)));
                    if let Some(ex) = &out.exec {
                        if let Some(t) = &ex.transcript {
                            d.str(&t.digest.hex());
                        }
                        d.str(&format!("{:?}", ex.counters.0));
                    }
                    d.str(&format!("{:?}", out.faults.0));
                    acc.push(format!("{run} {}", d.hex()));
                    Ok(())
                },
                |a, b| a.extend(b),
                vec![],
            )
            .0
        }
        "C02" => par_fold(
            n,
            ctx.workers,
            64,
            |run, acc: &mut Vec<String>| -> Result<(), ()> {
                let sc = crate::c02::generate(run_seed(seed, 2, run), true);
                let mut c = Counters::default();
                let r = crate::c02::execute(&sc, &mut c, None);
                let mut d = crate::prng::Digest::new();
                d.str(&serde_json::to_string(&sc).unwrap());
                d.str(&match r {
                    Ok(o) => format!("ok {} {} {} {}", o.prefix_checks, o.singular_at_ge_k, o.decoded, o.final_set_hash),
                    Err(f) => format!("fail {}", f.oracle),
                });
                acc.push(format!("{run} {}", d.hex()));
                Ok(())
            },
            |a, b| a.extend(b),
            vec![],
        )
        .0,
        #[cfg(feature = "rq-std")]
        "C16" => par_fold(
            n,
            ctx.workers,
            64,
            |run, acc: &mut Vec<String>| -> Result<(), ()> {
                let h = crate::c16::generate(run_seed(seed, 16, run));
                let mut c = Counters::default();
                let r = crate::c16::execute(&h, &mut c, None);
                let mut d = crate::prng::Digest::new();
                d.str(&serde_json::to_string(&h).unwrap());
                d.str(&match r {
                    Ok(o) => format!("ok {} {} {}", o.executed, o.skipped, o.shape),
                    Err(f) => format!("fail {}", f.oracle),
                });
                d.str(&format!("{:?}", c.0));
                acc.push(format!("{run} {}", d.hex()));
                Ok(())
            },
            |a, b| a.extend(b),
            vec![],
        )
        .0,
        _ => {
            eprintln!("rundigests: unknown property {prop}");
            return 2;
        }
    };
    for l in lines {
        println!("{l}");
    }
    0
}

/// developer aid: print the configuration of the first n scenarios of a C07 stream
pub fn show_c07(stream: u64, n: u64, max_k: u32, seed: u64) {
    for run in 0..n {
        let t = std::time::Instant::now();
        let out = simulate(run_seed(seed, stream, run), Profile::C07, oracles_for(Profile::C07), true, max_k);
        println!("{run}: {:?} ks={:?} nrx={} events={} reps={:?} {:.2}s", out.scenario.setup.oti, &block_sizes(&out.scenario.setup.oti)[..1], out.scenario.setup.receivers.len(), out.scenario.events.len(), out.scenario.setup.replicas, t.elapsed().as_secs_f64());
    }
}
